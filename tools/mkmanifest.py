#!/venv/bin/python
"""Regenerates /verif/MANIFEST.json from the table below and validates it against the schema."""
import json
import os
import sys

HERE = os.path.dirname(os.path.dirname(os.path.abspath(__file__)))
PROPS = [json.loads(l) for l in open(os.path.join(HERE, "properties.jsonl"))]

# id -> (technique, level text, level note, design section)
CLAIMED = {}


def claim(pid, technique, text, note, ref):
    CLAIMED[pid] = (technique, text, note, ref)


RM = "runtime monitoring: "
claim("C01", RM + "reference-model oracle at the API boundary (Trace.parse_traces/load_traces vs. independent recomputation from json.loads) + icontract post-conditions on round_down_time_stamps, parse_trace_file, Trace._align_all_ranks",
      "Exploration: the real loader is run on hundreds (quick) / thousands (thorough) of generated hostile file sets and the real sample traces; every loaded row is compared with an independent model of the file. Held-on-what-was-observed, not a proof; right level because the property is a per-row statement over arbitrary files that only execution against an oracle can decide here.",
      "Trusted: hv/ref/raw.py (naive model), Python json, the regime predicate (>= 1 complete event per file, integer stream/correlation args). ijson backends unreachable (not installed).",
      "DESIGN.md §5 C01")

claim("C02", RM + "reference-model oracle on Trace.get_trace(rank)['index_correlation'] (per-row recomputation of the link from raw events) + icontract post-condition on transform_correlation_to_index (mutual, same id, sentinels)",
      "Exploration: hundreds/thousands of simulated traces with launches, kernels and sync partners dropped at random; every row's link is compared with the reference. Held on what was observed.",
      "Trusted: hv/ref/raw.py::link_oracle (documented side rule), hv/wf.py regime predicate, G-sim generator.", "DESIGN.md §5 C02")
claim("C03", RM + "reference-model oracle over CallStackGraph.get_nodes() of both builders and the parent/depth columns of both CallGraph classes; tie-class histogram of the inputs gates inconclusive; K1 attribution test for the recorded finding",
      "Exploration (+ exhaustive enumeration of all laminar families of <= 3 spans over 0..2 in quick, <= 4 over 0..3 in thorough): parents, depths, children lists and zero-duration placement are recomputed pairwise from the spans.",
      "Trusted: the pairwise innermost-enclosing oracle in hv/props/c03.py; K1 (zero-duration event where one span ends and another begins) and K4 (the builder behind critical-path analysis loses a host thread that shares its (pid, tid) pair with a device stream) are recorded known findings, recognised only through their attribution data.", "DESIGN.md §5 C03")
claim("C08", RM + "edge logger wrapped around CPGraph._add_edge_helper + offline checker of the finished graph (own acyclicity check, expected node set, host call-stack chain, edge type discipline, weight rule) against a reference computed from raw events and G-sim ground truth",
      "Exploration: hundreds/thousands of critical-path graphs built by the real analysis on simulated causally consistent traces over many windows and both launch-edge settings; every edge of every graph is judged.",
      "Trusted: hv/ref/cp.py, hv/ref/load.py, hv/wf.py (regime), G-sim ground truth for synchronisation relations. Event-sync / stream-wait edges are not produced in this environment (DESIGN O1).", "DESIGN.md §5 C08")

claim("C04", RM + "reference-model oracle (integer sweep over distinct endpoints) on TraceAnalysis.get_temporal_breakdown + icontract post-condition on merge_kernel_intervals (sorted, disjoint, union measure preserved, inputs covered)",
      "Exploration over hostile interval arrangements (touching, nested, identical, zero-length, multi-stream, multi-rank).",
      "Trusted: hv/ref/intervals.py (sweep + documented kernel-type regexes), regime kernel_time > 0, ranks share one clock.", "DESIGN.md §5 C04")
claim("C05", RM + "reference-model oracle on get_gpu_kernel_breakdown: exact set-of-types sweep for the kernel-type table; per rank/type conservation, num_kernels cap and per-name statistics for the per-kernel table; merge_kernel_intervals contract",
      "Exploration over G-int arrangements x num_kernels x duration_ratio x memory on/off.",
      "Trusted: hv/ref/intervals.py; no kernel literally named 'others'; total analysed busy time > 0.", "DESIGN.md §5 C05")
claim("C06", RM + "reference-model oracle on get_idle_time_breakdown: per-stream gaps between consecutive kernels classified by the documented rule, with thresholds drawn from the actual gaps",
      "Exploration over simulated traces with unlinked kernels, touching kernels, rank/stream subsets and boundary thresholds.",
      "Trusted: hv/ref/load.py (trimming), hv/ref/raw.py (links), hv/wf.py regime (non-overlapping kernels per stream).", "DESIGN.md §5 C06")
claim("C07", RM + "reference-model oracle (sweep) on get_comm_comp_overlap + merge_kernel_intervals contract",
      "Exploration over G-int arrangements with communication kernels and every tie pattern.",
      "Trusted: hv/ref/intervals.py; communication time > 0 on every rank.", "DESIGN.md §5 C07")
claim("C09", RM + "own topological-order DP longest path vs. CPGraph.critical_path_nodes / edges_set / events_set, after analysis and after 3-8 random re-weightings judged against the weights the harness set; icontract post-condition on CPGraph.critical_path",
      "Exploration over the graphs of C08's workload; every path is compared with an independent optimum.",
      "Trusted: hv/ref/cp.py::longest_path. K3 (all-zero-weight graph trips the library's own assert) is a recorded known finding.", "DESIGN.md §5 C09")
claim("C10", RM + "semantic oracle over get_critical_path_breakdown / summary / get_event_attribution_for_edge for every critical edge (attributed event exists, same thread/stream, covers the edge's time range; class from the attributed event), durations vs. the path's graph weight",
      "Exploration over deep-nesting G-sim graphs; all four start/end attribution cases required by the floors.",
      "Trusted: hv/ref/cp.py, loaded view from hv/ref/load.py.", "DESIGN.md §5 C10")
claim("C11", RM + "icontract class invariant on TraceSymbolTable + snapshot/ensure on add_symbols/add_symbols_mp over random operation histories; per-rank decode oracle under loading histories and worker-delay injection with logged completion orders; id-free digests of loaded frames and ten getters across PYTHONHASHSEED x multiprocessing in fresh interpreters",
      "Exploration (+ exhaustive add-sequences of length <= 3/4 over 3 symbols). Schedules are forced by injected delays and recorded, not enumerated.",
      "Trusted: list-based table model, hv/ref/raw.py, digest canonicalisation in hv/c11_digest.py. Only the JSON backend is reachable.", "DESIGN.md §5 C11")
claim("C12", RM + "reference-model oracle on the iteration column, the kept id set after load_traces(include_last_profiler_step in {F,T}) and get_iterations(); icontract post-condition on add_iteration",
      "Exploration over simulated traces with 0-5 steps, gaps, boundary starts, unlinked activities, 1-3 ranks.",
      "Trusted: hv/ref/load.py, hv/wf.py; all ranks carry the same step set; cuda_sync rows on stream -1 not judged for iteration.", "DESIGN.md §5 C12")
claim("C13", RM + "oracle relative to the reported parent column: device parents from links, depth/height/kernel aggregates recomputed over the reported tree with loaded times, autograd attachment from raw-event ground truth",
      "Exploration over simulated traces with 1-3 threads, autograd threads, epoch offsets from 0 to 1.7e15.",
      "Trusted: hv/ref/load.py, hv/ref/raw.py, hv/wf.py::tree_parents.", "DESIGN.md §5 C13")
claim("C14", RM + "offline step-function checker: the launch/start event log rebuilt from raw events vs. get_queue_length_time_series / get_memory_bw_time_series at every instant, and the counter events of the *_with_counters file",
      "Exploration under heavy equal-timestamp pressure (hundreds of tied instants per quick run).",
      "Trusted: hv/ref/load.py, link oracle, launch-name list as documented; causal regime.", "DESIGN.md §5 C14")
claim("C15", RM + "multiset oracle over get_cuda_kernel_launch_stats rows per rank, also after histories of other read-only analyses on the same object",
      "Exploration over simulated traces, rank subsets, memory events on/off.",
      "Trusted: hv/ref/load.py, documented launch names.", "DESIGN.md §5 C15")
claim("C16", RM + "first-principles recomputation of the frequent kernel patterns (host tree, links, kernels beneath each instance) vs. get_frequent_cuda_kernel_sequences for several queries on one object",
      "Exploration over simulated traces with small operator vocabularies repeated at several depths.",
      "Trusted: hv/wf.py::tree_parents (K1-free), link oracle; queries whose instances contain tied kernel starts are skipped.", "DESIGN.md §5 C16")
claim("C17", RM + "reference-model oracle on TraceDiff.compare_traces / ops_diff (per-name counts and durations from raw files with the reference iteration assignment), partition law of the five classes, self-comparison law, call-order and label variants",
      "Exploration over pairs of simulated trace sets and every kind of rank / iteration / device selection.",
      "Trusted: hv/ref/load.py::iterations, repo's shorten_name for short names.", "DESIGN.md §5 C17")
claim("C18", RM + "purity monitor (icontract snapshot/ensure on __call__ of every Filter class: input unchanged, sub-sequence, row equality) + row-wise predicate oracle, composite == sequential, commutation and idempotence of row-local members",
      "Exploration: thousands of filter applications per run over encoded / decoded / in-place decoded / rank-column / reduced / empty frames.",
      "Trusted: the row-wise predicates in hv/props/c18.py.", "DESIGN.md §5 C18")
claim("C19", RM + "state comparison after 1-3 CPGraph.save -> restore_cpgraph cycles (nodes, edges, weight attributes, edge objects, maps, critical path, breakdown) + recomputation on the restored graph",
      "Exploration over C08's graphs plus graphs with a clamped -1 edge.",
      "Trusted: Python equality of dataclasses / frames up to row order.", "DESIGN.md §5 C19")
claim("C20", RM + "offline checker over the files written (counters, overlay in every option combination, multi-step sequences from one object, write/read/update_trace_rank, rank discovery) against the source events and the graph's critical path / drawn edges",
      "Exploration over simulated and structural traces in both file formats.",
      "Trusted: json/gzip modules; analysed events carry an args object. Written files are read the way their names say (.gz: gzip, otherwise JSON text). K5 (rank discovery reads an event argument named rank that precedes the metadata) is a recorded known finding.", "DESIGN.md §5 C20")

NOT_YET = "check not built yet in this session (work in progress; see DESIGN.md §5 for the planned monitor)"


def main():
    checks = []
    for p in PROPS:
        pid = p["id"]
        if pid not in CLAIMED:
            continue
        technique, text, note, ref = CLAIMED[pid]
        checks.append({
            "property_id": pid,
            "quick_cmd": f"./check {pid} --tier quick",
            "thorough_cmd": f"./check {pid} --tier thorough",
            "evidence_file": f"evidence/{pid}.json",
            "replay_cmd_template": f"./check {pid} --replay {{path}}",
            "engine": "hv",
            "level_claimed": {"category": "exploration", "text": text, "design_ref": ref},
            "level_note": note,
            "technique": technique,
        })
    na = [{"property_id": p["id"], "reason": NOT_YET} for p in PROPS if p["id"] not in CLAIMED]
    man = {
        "version": 1,
        "setup_cmd": "/venv/bin/pip install --quiet --no-index --find-links /opt/veriftools/wheels --target /verif/.deps icontract deal && chmod +x /verif/check",
        "hooks": {
            "guard": "HTA_VERIF",
            "enable": "no source hooks: every monitor is attached from the harness by rebinding module/class attributes of the freshly imported /repo sources (PYTHONPATH=/repo, HTA_VERIF=1 is exported by ./check for documentation only)",
            "baseline_off_cmd": "cd /repo && /venv/bin/python -m pytest -ra -q -p no:cacheprovider --timeout=900 --continue-on-collection-errors",
            "source_commits": [],
            "add_only": True,
        },
        "engines": [{"name": "hv", "path": "hv/", "serves_properties": sorted(CLAIMED),
                     "kind_free_text": "runtime monitoring harness: workload generators, reference-model oracles over raw events, icontract contracts on the real functions, offline log checkers, warning/overflow taps; shards run as subprocesses importing /repo's working tree afresh"}],
        "checks": checks,
        "notes": "exit 0 = held on everything observed (KNOWN-FINDING lines possible), 1 = VIOLATION, 2 = INCONCLUSIVE (watchdog, monitor never reached, floors not met). VERIF_SEED / VERIF_TIER honoured. Known findings: known_findings.json + hv/kf.py.",
        "not_applicable": na,
    }
    out = os.path.join(HERE, "MANIFEST.json")
    with open(out, "w") as fh:
        json.dump(man, fh, indent=1)
    try:
        import jsonschema
        jsonschema.validate(man, json.load(open("/root/.vp/MANIFEST.schema.json")))
        print("MANIFEST.json valid;", len(checks), "checks,", len(na), "not_applicable")
    except Exception as e:  # noqa: BLE001
        print("MANIFEST INVALID:", e)
        sys.exit(1)


if __name__ == "__main__":
    main()
