#!/venv/bin/python
"""Regenerates /verif/MANIFEST.json from the table below and validates it against the schema."""
import json
import os
import sys

HERE = os.path.dirname(os.path.dirname(os.path.abspath(__file__)))
PROPS = [json.loads(l) for l in open(os.path.join(HERE, "properties.jsonl"))]

# id -> (technique, level text, level note, design section)
CLAIMED = {}


def claim(pid, technique, text, note, ref):
    CLAIMED[pid] = (technique, text, note, ref)


RM = "runtime monitoring: "
claim("C01", RM + "reference-model oracle at the API boundary (Trace.parse_traces/load_traces vs. independent recomputation from json.loads) + icontract post-conditions on round_down_time_stamps, parse_trace_file, Trace._align_all_ranks",
      "Exploration: the real loader is run on hundreds (quick) / thousands (thorough) of generated hostile file sets and the real sample traces; every loaded row is compared with an independent model of the file. Held-on-what-was-observed, not a proof; right level because the property is a per-row statement over arbitrary files that only execution against an oracle can decide here.",
      "Trusted: hv/ref/raw.py (naive model), Python json, the regime predicate (>= 1 complete event per file, integer stream/correlation args). ijson backends unreachable (not installed).",
      "DESIGN.md §5 C01")

claim("C02", RM + "reference-model oracle on Trace.get_trace(rank)['index_correlation'] (per-row recomputation of the link from raw events) + icontract post-condition on transform_correlation_to_index (mutual, same id, sentinels)",
      "Exploration: hundreds/thousands of simulated traces with launches, kernels and sync partners dropped at random; every row's link is compared with the reference. Held on what was observed.",
      "Trusted: hv/ref/raw.py::link_oracle (documented side rule), hv/wf.py regime predicate, G-sim generator.", "DESIGN.md §5 C02")
claim("C03", RM + "reference-model oracle over CallStackGraph.get_nodes() of both builders and the parent/depth columns of both CallGraph classes; tie-class histogram of the inputs gates inconclusive; K1 attribution test for the recorded finding",
      "Exploration (+ exhaustive enumeration of all laminar families of <= 3 spans over 0..2 in quick, <= 4 over 0..3 in thorough): parents, depths, children lists and zero-duration placement are recomputed pairwise from the spans.",
      "Trusted: the pairwise innermost-enclosing oracle in hv/props/c03.py; K1 (zero-duration event where one span ends and another begins) is a recorded known finding, recognised only through the attribution test.", "DESIGN.md §5 C03")
claim("C08", RM + "edge logger wrapped around CPGraph._add_edge_helper + offline checker of the finished graph (own acyclicity check, expected node set, host call-stack chain, edge type discipline, weight rule) against a reference computed from raw events and G-sim ground truth",
      "Exploration: hundreds/thousands of critical-path graphs built by the real analysis on simulated causally consistent traces over many windows and both launch-edge settings; every edge of every graph is judged.",
      "Trusted: hv/ref/cp.py, hv/ref/load.py, hv/wf.py (regime), G-sim ground truth for synchronisation relations. Event-sync / stream-wait edges are not produced in this environment (DESIGN O1).", "DESIGN.md §5 C08")

NOT_YET = "check not built yet in this session (work in progress; see DESIGN.md §5 for the planned monitor)"


def main():
    checks = []
    for p in PROPS:
        pid = p["id"]
        if pid not in CLAIMED:
            continue
        technique, text, note, ref = CLAIMED[pid]
        checks.append({
            "property_id": pid,
            "quick_cmd": f"./check {pid} --tier quick",
            "thorough_cmd": f"./check {pid} --tier thorough",
            "evidence_file": f"evidence/{pid}.json",
            "replay_cmd_template": f"./check {pid} --replay {{path}}",
            "engine": "hv",
            "level_claimed": {"category": "exploration", "text": text, "design_ref": ref},
            "level_note": note,
            "technique": technique,
        })
    na = [{"property_id": p["id"], "reason": NOT_YET} for p in PROPS if p["id"] not in CLAIMED]
    man = {
        "version": 1,
        "setup_cmd": "/venv/bin/pip install --quiet --no-index --find-links /opt/veriftools/wheels --target /verif/.deps icontract deal && chmod +x /verif/check",
        "hooks": {
            "guard": "HTA_VERIF",
            "enable": "no source hooks: every monitor is attached from the harness by rebinding module/class attributes of the freshly imported /repo sources (PYTHONPATH=/repo, HTA_VERIF=1 is exported by ./check for documentation only)",
            "baseline_off_cmd": "cd /repo && /venv/bin/python -m pytest -ra -q -p no:cacheprovider --timeout=900 --continue-on-collection-errors",
            "source_commits": [],
            "add_only": True,
        },
        "engines": [{"name": "hv", "path": "hv/", "serves_properties": sorted(CLAIMED),
                     "kind_free_text": "runtime monitoring harness: workload generators, reference-model oracles over raw events, icontract contracts on the real functions, offline log checkers, warning/overflow taps; shards run as subprocesses importing /repo's working tree afresh"}],
        "checks": checks,
        "notes": "exit 0 = held on everything observed (KNOWN-FINDING lines possible), 1 = VIOLATION, 2 = INCONCLUSIVE (watchdog, monitor never reached, floors not met). VERIF_SEED / VERIF_TIER honoured. Known findings: known_findings.json + hv/kf.py.",
        "not_applicable": na,
    }
    out = os.path.join(HERE, "MANIFEST.json")
    with open(out, "w") as fh:
        json.dump(man, fh, indent=1)
    try:
        import jsonschema
        jsonschema.validate(man, json.load(open("/root/.vp/MANIFEST.schema.json")))
        print("MANIFEST.json valid;", len(checks), "checks,", len(na), "not_applicable")
    except Exception as e:  # noqa: BLE001
        print("MANIFEST INVALID:", e)
        sys.exit(1)


if __name__ == "__main__":
    main()
