#!/bin/bash
# tools/sweep.sh <tier> <seed...>  : runs every check with --no-evidence for the given seeds; prints non-zero exits
cd "$(dirname "$0")/.."
tier=$1; shift
for s in "$@"; do
  for p in C01 C02 C03 C04 C05 C06 C07 C08 C09 C10 C11 C12 C13 C14 C15 C16 C17 C18 C19 C20; do
    out=$(PYTHONHASHSEED=0 VERIF_SEED=$s ./check $p --tier $tier --no-evidence 2>&1); rc=$?
    echo "seed=$s $p rc=$rc $(echo "$out" | head -1 | cut -c1-160)"
    if [ $rc -ne 0 ]; then echo "$out" | grep -v "^KNOWN" | tail -6 | cut -c1-400; fi
  done
done
