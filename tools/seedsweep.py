#!/venv/bin/python
"""Re-confirms every seeded change under /verif/seeded against the current checks and /repo HEAD (in scratch worktrees),
8 at a time, then writes seeded/SUMMARY.md.   tools/seedsweep.py [--no-tests] [names...]"""
import concurrent.futures as cf, json, os, subprocess, sys
HERE = os.path.dirname(os.path.dirname(os.path.abspath(__file__)))
S = os.path.join(HERE, "seeded")
args = [a for a in sys.argv[1:] if not a.startswith("--")]
notests = "--no-tests" in sys.argv
desc = json.load(open(os.path.join(S, "descriptions.json")))
names = args or sorted(d for d in os.listdir(S) if os.path.isdir(os.path.join(S, d)) and not d.startswith("_"))
EXTRA = {"C11-I": "C11,C01", "C07-A": "C07,C04,C05", "C05-A": "C05,C04,C07", "C04-B": "C04,C07,C05", "C08-B": "C08,C03", "C03-B": "C03,C08",
         # the same change as C08-O (kernels before a sync record at equal timestamps): the backward edge it creates is what C08 judges;
         # C09 sees it only when the reported path runs through that edge
         "C09-O": "C09,C08",
         # the category with symbol id 0 read as absent: C05 judges the annotation breakdown of files that begin with an annotation span; C11's
         # digests compare runs over the SAME files (hash seed, multiprocessing), which never renumber the category
         "C11-Q": "C11,C05"}
# changes that need more than 65536 trace rows / 32768 host calls in one rank: thorough tier only
TIER = {"C19-L": "thorough", "C02-O": "thorough"}

def one(n):
    prop = n.split("-")[0]
    cmd = [os.path.join(HERE, "tools", "seedcheck.py"), n, prop, os.path.join(S, n, "patch.diff"), os.path.join(S, n, "demo.py"),
           "--needs", desc.get(n, {}).get("needs", ""), "--checks", EXTRA.get(n, prop), "--tier", TIER.get(n, "quick")] + (["--no-tests"] if notests else [])
    p = subprocess.run(cmd, stdout=subprocess.PIPE, stderr=subprocess.STDOUT, text=True)
    m = json.load(open(os.path.join(S, n, "meta.json")))
    m["what"] = desc.get(n, {}).get("what", "")
    json.dump(m, open(os.path.join(S, n, "meta.json"), "w"), indent=1)
    return n, m, p.stdout[-300:]

summary_only = "--summary-only" in sys.argv
if not summary_only:
    with cf.ThreadPoolExecutor(max_workers=6) as ex:
        for n, m, out in ex.map(one, names):
            own = m.get("checks", {}).get(n.split("-")[0], {})
            others = {k: v["caught"] for k, v in m.get("checks", {}).items() if k != n.split("-")[0]}
            print(n, "applies" if m.get("patch_applies") else "NO-APPLY", "demo", m.get("demo_unchanged_exit"), m.get("demo_patched_exit"), "tests", m.get("stable_pass_still_passing"),
                  "CAUGHT" if own.get("caught") else ("CAUGHT-BY-" + "+".join(k for k, v in others.items() if v) if any(others.values()) else f"MISSED(exit {own.get('exit')})"), others, flush=True)
# the table always covers every kept change (from the meta.json each confirmation leaves behind)
rows = []
for n in sorted(d for d in os.listdir(S) if os.path.isdir(os.path.join(S, d)) and not d.startswith("_")):
    mp = os.path.join(S, n, "meta.json")
    if not os.path.exists(mp):
        continue
    m = json.load(open(mp))
    own = m.get("checks", {}).get(n.split("-")[0], {})
    others = {k: v["caught"] for k, v in m.get("checks", {}).items() if k != n.split("-")[0]}
    rows.append((n, m, own, others))
with open(os.path.join(S, "SUMMARY.md"), "w") as fh:
    fh.write("# Seeded changes (independent sub-agents; confirmed in scratch worktrees; never committed to /repo)\n\n")
    fh.write(f"{len(rows)} changes; caught by the check of their own property: {sum(1 for r in rows if r[2].get('caught'))}; "
             f"by another property's check only: {sum(1 for r in rows if not r[2].get('caught') and any(r[3].values()))}; "
             f"not caught: {sum(1 for r in rows if not r[2].get('caught') and not any(r[3].values()))}.\n\n")
    fh.write("| change | property | what was changed | needs to manifest | demo unchanged/patched | stable tests | own check (tier) | other checks |\n|---|---|---|---|---|---|---|---|\n")
    for n, m, own, others in rows:
        kinds = "; ".join(k.split("violation kind: ")[-1].strip() for k in own.get("kinds", [])[:2])
        fh.write(f"| {n} | {m['property']} | {m.get('what','')} | {m.get('needs_to_manifest','')} | {m.get('demo_unchanged_exit')}/{m.get('demo_patched_exit')} | "
                 f"{m.get('stable_pass_still_passing')}/87 | {TIER.get(n, 'quick')}: {'caught: ' + kinds if own.get('caught') else 'MISSED'} | {', '.join(f'{k}: ' + ('caught' if v else 'not caught') for k, v in others.items())} |\n")
print("wrote", os.path.join(S, "SUMMARY.md"), len(rows), "rows")
