#!/venv/bin/python
"""tools/reach.py [tier] [cases-scale] : runs every check under coverage.py (opt-in VERIF_COV mode of the runner) and
prints, per repository module, which functions the monitored workloads never enter and the line reach.  Used to find
behaviour behind a property that no workload class drives yet; not part of any registered check."""
import json, os, shutil, subprocess, sys, ast

HERE = os.path.dirname(os.path.dirname(os.path.abspath(__file__)))
REPO = os.environ.get("VERIF_REPO", "/repo")
tier = sys.argv[1] if len(sys.argv) > 1 else "quick"
props = sys.argv[2:] or [f"C{i:02d}" for i in range(1, 21)]
cov = "/tmp/hv_reach"
shutil.rmtree(cov, ignore_errors=True)
env = dict(os.environ, VERIF_COV=cov, PYTHONHASHSEED="0")
for p in props:
    r = subprocess.run([os.path.join(HERE, "check"), p, "--tier", tier, "--no-evidence"], env=env, capture_output=True, text=True)
    print(p, "rc", r.returncode, r.stdout.splitlines()[0][:150] if r.stdout else r.stderr[-300:], flush=True)
subprocess.run([sys.executable, "-m", "coverage", "combine", f"--data-file={cov}/.coverage", cov], capture_output=True)
subprocess.run([sys.executable, "-m", "coverage", "json", f"--data-file={cov}/.coverage", "-o", f"{cov}/cov.json"], capture_output=True)
data = json.load(open(f"{cov}/cov.json"))
out = []
for f, d in sorted(data["files"].items()):
    rel = os.path.relpath(f, REPO)
    missing = set(d["missing_lines"]); executed = set(d["executed_lines"])
    try:
        tree = ast.parse(open(f).read())
    except Exception:
        continue
    never, partial = [], []
    for n in ast.walk(tree):
        if isinstance(n, (ast.FunctionDef, ast.AsyncFunctionDef)):
            body = set(range(n.body[0].lineno, n.end_lineno + 1))
            ex, mi = len(body & executed), len(body & missing)
            if ex == 0 and mi:
                never.append(n.name)
            elif mi:
                partial.append(f"{n.name}({mi}/{ex + mi})")
    s = d["summary"]
    out.append(f"{rel}: {s['percent_covered']:.0f}% lines ({s['covered_lines']}/{s['num_statements']})\n   never entered: {', '.join(never) or '-'}\n   partly: {', '.join(partial) or '-'}")
print("\n".join(out))
open(os.path.join(HERE, "REACH.txt"), "w").write("\n".join(out) + "\n")
