#!/venv/bin/python
"""Runs the repository's pinned test command (guard off) and compares with BASELINE.json's stable_pass list."""
import json, subprocess, sys, os, xml.etree.ElementTree as ET, tempfile
base = json.load(open("/root/.vp/BASELINE.json"))
out = tempfile.mktemp(suffix=".xml")
env = {k: v for k, v in os.environ.items() if k not in ("HTA_VERIF", "PYTHONPATH", "VERIF_REPO")}
cmd = base["cmd"].replace("<file>", out)
p = subprocess.run(cmd, shell=True, env=env, stdout=subprocess.PIPE, stderr=subprocess.STDOUT, text=True)
passed = set()
for tc in ET.parse(out).getroot().iter("testcase"):
    if not any(ch.tag in ("failure", "error", "skipped") for ch in tc):
        passed.add(f"{tc.get('classname')}::{tc.get('name')}")
stable = set(base["stable_pass"])
missing = sorted(stable - passed)
print(p.stdout.strip().splitlines()[-1])
print(f"stable_pass {len(stable)}; still passing {len(stable & passed)}; newly passing {len(passed - stable)}")
if missing:
    print("REGRESSED:", *missing, sep="\n  ")
    sys.exit(1)
os.remove(out)
