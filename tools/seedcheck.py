#!/venv/bin/python
"""Confirm a seeded change and run checks against it, in a scratch worktree of /repo HEAD (never in /repo).

    tools/seedcheck.py <name> <property> <patch.diff> <demo.py> [--checks C01,C12] [--needs "..."] [--no-tests] [--keep]

Steps: fresh worktree /tmp/sc/<name> at /repo HEAD; demo on the unchanged tree (expect exit 0); apply patch;
demo again (expect exit 1); pinned test-suite with the patch (stable_pass must still pass); each listed check with
VERIF_REPO=<worktree> (quick tier, --no-evidence); remove the worktree.  Results go to /verif/seeded/<name>/meta.json
next to patch.diff and the demo.
"""
import argparse
import json
import os
import shutil
import subprocess
import sys
import tempfile
import time
import xml.etree.ElementTree as ET

VERIF = os.path.dirname(os.path.dirname(os.path.abspath(__file__)))


def sh(cmd, cwd=None, env=None, timeout=3600):
    p = subprocess.run(cmd, shell=True, cwd=cwd, env=env, stdout=subprocess.PIPE, stderr=subprocess.STDOUT, text=True, timeout=timeout)
    return p.returncode, p.stdout


def main():
    ap = argparse.ArgumentParser()
    ap.add_argument("name"); ap.add_argument("prop"); ap.add_argument("patch"); ap.add_argument("demo")
    ap.add_argument("--checks", default=None); ap.add_argument("--needs", default=""); ap.add_argument("--no-tests", action="store_true")
    ap.add_argument("--keep", action="store_true"); ap.add_argument("--tier", default="quick"); ap.add_argument("--seed", default="0")
    a = ap.parse_args()
    checks = (a.checks or a.prop).split(",")
    wt = f"/tmp/sc/{a.name}"
    os.makedirs("/tmp/sc", exist_ok=True)
    sh(f"git -C /repo worktree remove --force {wt}")
    rc, out = sh(f"git -C /repo worktree add -q --detach {wt} HEAD")
    assert rc == 0, out
    meta = {"name": a.name, "property": a.prop, "needs_to_manifest": a.needs, "repo_head": sh("git -C /repo rev-parse --short HEAD")[1].strip(),
            "ran": []}
    dst = os.path.join(VERIF, "seeded", a.name)
    os.makedirs(dst, exist_ok=True)
    if os.path.abspath(a.patch) != os.path.join(dst, "patch.diff"):
        shutil.copy(a.patch, os.path.join(dst, "patch.diff"))
    demo_dst = os.path.join(dst, "demo.py")
    if os.path.abspath(a.demo) != demo_dst:
        shutil.copy(a.demo, demo_dst)
    env = dict(os.environ, PYTHONPATH=wt, PYTHONDONTWRITEBYTECODE="1")
    env.pop("VERIF_REPO", None)
    try:
        # demo refers to its original worktree path? rewrite to the scratch one
        src = open(demo_dst).read()
        demo_run = os.path.join(wt, "_demo.py")
        import re
        open(demo_run, "w").write(re.sub(r"/tmp/wt/C\d+", wt, src))
        rc0, o0 = sh(f"/venv/bin/python {demo_run}", cwd=wt, env=env, timeout=900)
        meta["demo_unchanged_exit"] = rc0
        rc, out = sh(f"git apply {os.path.join(dst, 'patch.diff')}", cwd=wt)
        if rc != 0:
            # the context of the change was touched by a later fix: commit in /repo: same change, looser context match; the stored patch
            # is rewritten against the new context (and the demo decides below whether it still is the same change)
            sh("git checkout -q -- hta", cwd=wt)
            rc, out2 = sh(f"patch -p1 -F3 --no-backup-if-mismatch < {os.path.join(dst, 'patch.diff')}", cwd=wt)
            rej = [f for f in subprocess.run("git status --short", shell=True, cwd=wt, capture_output=True, text=True).stdout.split() if f.endswith(".rej") or f.endswith(".orig")]
            changed = subprocess.run("git diff --name-only -- hta", shell=True, cwd=wt, capture_output=True, text=True).stdout.split()
            compiles = all(subprocess.run([sys.executable, "-m", "py_compile", os.path.join(wt, f)], capture_output=True).returncode == 0 for f in changed if f.endswith(".py"))
            if rc == 0 and not rej and changed and compiles:
                _, d2 = sh("git diff -- hta", cwd=wt)
                open(os.path.join(dst, "patch.diff"), "w").write(d2 if d2.endswith("\n") else d2 + "\n")
                meta["rebased"] = "context changed by a later fix: commit; re-applied with patch -F3 and stored again"
            else:
                sh("git checkout -q -- hta; git clean -fdq hta", cwd=wt)
                rc = 1
                out = out + out2
        meta["patch_applies"] = rc == 0
        if rc != 0:
            meta["apply_error"] = out[-500:]
            print("PATCH DOES NOT APPLY", out[-500:])
            return finish(meta, dst, wt, a)
        rc1, o1 = sh(f"/venv/bin/python {demo_run}", cwd=wt, env=env, timeout=900)
        meta["demo_patched_exit"] = rc1
        meta["demo_patched_tail"] = o1[-600:]
        meta["ran"].append(f"demo on unchanged worktree -> exit {rc0}; with patch -> exit {rc1}")
        if not a.no_tests:
            base = json.load(open("/root/.vp/BASELINE.json"))
            xml = tempfile.mktemp(suffix=".xml")
            cmd = base["cmd"].replace("cd /repo", f"cd {wt}").replace("<file>", xml)
            t0 = time.time()
            sh(cmd, env=env, timeout=3000)
            passed = set()
            try:
                for tc in ET.parse(xml).getroot().iter("testcase"):
                    if not any(ch.tag in ("failure", "error", "skipped") for ch in tc):
                        passed.add(f"{tc.get('classname')}::{tc.get('name')}")
                os.remove(xml)
            except Exception as e:  # noqa: BLE001
                meta["tests_error"] = str(e)
            stable = set(base["stable_pass"])
            meta["stable_pass_still_passing"] = len(stable & passed)
            meta["stable_pass_regressed"] = sorted(stable - passed)
            meta["ran"].append(f"pinned test-suite with patch: {len(stable & passed)}/87 stable tests pass ({time.time() - t0:.0f}s)")
        os.remove(demo_run)
        meta["checks"] = {}
        for c in checks:
            envc = dict(os.environ, VERIF_REPO=wt, VERIF_SEED=a.seed)
            t0 = time.time()
            rc, out = sh(f"./check {c} --tier {a.tier} --no-evidence", cwd=VERIF, env=envc, timeout=3500)
            viol = [l for l in out.splitlines() if l.startswith("VIOLATION") or l.strip().startswith("[")][:6]
            kinds = [l for l in out.splitlines() if "violation kind" in l][:6]
            meta["checks"][c] = {"exit": rc, "caught": rc == 1, "wall_s": round(time.time() - t0, 1), "kinds": kinds, "first": viol[:3]}
            meta["ran"].append(f"./check {c} --tier {a.tier} (VERIF_SEED={a.seed}) against the patched worktree -> exit {rc}")
            print(f"  check {c}: exit {rc} {'CAUGHT' if rc == 1 else 'MISSED' if rc == 0 else 'INCONCLUSIVE'}  {kinds[:2]}")
            for l in out.splitlines():
                if l.startswith("INCONCLUSIVE"):
                    print("   ", l[:300])
    finally:
        finish(meta, dst, wt, a)


def finish(meta, dst, wt, a):
    json.dump(meta, open(os.path.join(dst, "meta.json"), "w"), indent=1)
    if not a.keep:
        sh(f"git -C /repo worktree remove --force {wt}")
        shutil.rmtree(wt, ignore_errors=True)
    print(json.dumps({k: meta.get(k) for k in ("name", "demo_unchanged_exit", "patch_applies", "demo_patched_exit", "stable_pass_still_passing")}))


if __name__ == "__main__":
    main()
