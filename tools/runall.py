#!/venv/bin/python
"""Runs every claimed check (quick by default) and validates the evidence files.  tools/runall.py [quick|thorough] [seed] [ids...]"""
import json, os, subprocess, sys, time
HERE = os.path.dirname(os.path.dirname(os.path.abspath(__file__)))
tier = sys.argv[1] if len(sys.argv) > 1 else "quick"
seed = sys.argv[2] if len(sys.argv) > 2 else "0"
only = sys.argv[3:]
man = json.load(open(os.path.join(HERE, "MANIFEST.json")))
schema = json.load(open("/root/.vp/EVIDENCE.schema.json"))
import jsonschema
bad = 0
for c in man["checks"]:
    pid = c["property_id"]
    if only and pid not in only:
        continue
    cmd = c["quick_cmd"] if tier == "quick" else c["thorough_cmd"]
    ev = os.path.join(HERE, c["evidence_file"])
    if os.path.exists(ev):
        os.remove(ev)
    t0 = time.time()
    p = subprocess.run(cmd, shell=True, cwd=HERE, env=dict(os.environ, VERIF_SEED=seed), stdout=subprocess.PIPE, stderr=subprocess.STDOUT, text=True)
    dt = time.time() - t0
    lines = p.stdout.strip().splitlines()
    status = "ok"
    try:
        e = json.load(open(ev))
        jsonschema.validate(e, schema)
        evs = f"evidence ok (eval={e['coverage']['evaluations']}, distinct={e['coverage']['distinct_nontrivial']})"
    except Exception as ex:  # noqa: BLE001
        evs = f"EVIDENCE INVALID: {str(ex)[:120]}"
        status = "bad"
    if p.returncode != 0:
        status = "bad"
    bad += status == "bad"
    kf = sum(1 for l in lines if l.startswith("KNOWN-FINDING"))
    print(f"{pid} exit={p.returncode} {dt:5.1f}s known={kf} {evs}")
    if p.returncode != 0:
        print("   " + "\n   ".join(l[:300] for l in lines[-6:]))
sys.exit(1 if bad else 0)
