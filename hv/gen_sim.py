"""G-sim: discrete-event CUDA-like simulation producing well-formed, causally consistent Kineto traces.

Host threads (main thread with ProfilerStep#N annotations, optional autograd thread, optional helper
threads) execute random programs of nested cpu_op / user_annotation spans whose leaves are runtime
calls (cudaLaunchKernel[ExC], cuLaunchKernel, cudaMemcpyAsync, cudaMemsetAsync, cudaStreamSynchronize,
cudaDeviceSynchronize, cudaEventRecord, cudaStreamWaitEvent, cudaEventSynchronize/Query, plain
non-GPU runtime calls) against FIFO streams with launch latency.  By construction

  * spans of one host thread are properly nested (laminar);
  * a correlation id pairs at most one host call with one device activity;
  * device work never starts before its launch call starts, kernels of one stream neither overlap
    nor share a start time;
  * a synchronising call returns only after the work it waits for, and work enqueued while a
    synchronisation is pending starts after it (so "every activity that starts before the sync
    event ends has ended when the host call returns" holds).

Everything random derives from the `random.Random` passed in.  The result is the raw trace dict plus
ground truth (`truth`) used only by C08.
"""
from __future__ import annotations

import random
from typing import Any, Dict, List, Optional

COMP = ["ampere_sgemm_128x64_nn", "void at::native::vectorized_elementwise_kernel<4, at::native::FillFunctor<float>>(int)",
        "void cutlass::Kernel<cutlass_80_tensorop_s1688gemm>(Params)", "triton_poi_fused_add_0", "sm80_xmma_gemm_f32f32"]
COMM = ["ncclKernel_AllReduce_RING_LL_Sum_float(ncclWorkElem)", "ncclDevKernel_AllGather_RING_LL(ncclDevComm*, unsigned long)",
        # templated form: only the shortened name starts with "nccl"
        "void ncclKernel_AllReduce_RING_LL_Sum<float, 4>(ncclDevComm*, unsigned long, ncclWork*)"]
OTHERK = ["fooSync_kernel", "barMemcpyHelper"]          # kernel names of type OTHER
CPY = ["Memcpy HtoD (Pageable -> Device)", "Memcpy HtoD (Pinned -> Device)", "Memcpy DtoH (Device -> Pinned)", "Memcpy DtoH (Device -> Pageable)",
       "Memcpy DtoD (Device -> Device)"]     # several raw names share one copy type
OPS = ["aten::mm", "aten::add", "aten::linear", "aten::copy_", "aten::empty", "aten::to", "aten::relu", "aten::addmm"]
BWD = ["autograd::engine::evaluate_function: MmBackward0", "autograd::engine::evaluate_function: AddBackward0",
       "autograd::engine::evaluate_function: torch::autograd::AccumulateGrad"]
LAUNCH_K = ["cudaLaunchKernel", "cudaLaunchKernel", "cudaLaunchKernel", "cudaLaunchKernelExC", "cuLaunchKernel"]
PLAIN_RT = ["cudaMalloc", "cudaGetDevice", "cudaFuncGetAttributes", "cudaPeekAtLastError"]
STREAM_IDS = [7, 20, 24, 28, 33]

DEFAULTS: Dict[str, Any] = dict(
    rank=0, n_threads=1, n_streams=2, n_steps=2, base=0, tight=False, p_zero=0.1, avoid_k1=True, p_sync=0.15, p_event=0.1,
    max_depth=3, ops_per_step=(2, 5), big_corr=False, autograd=False, bwd_annotation=True, step_gap=(0, 1, 1, 7),
    pre_ops=1, post_ops=1, first_step=None, file_order="time", p_plain_rt=0.08, kernel_durs=(0, 1, 5, 20, 60),
    launch_lat=(0, 0, 1, 3, 10), queue_lat=(0, 0, 1, 5, 40), device_pid=0, repeat_names=False, annotation_nest=False,
    p_leaf_children=(0, 3), ops_pool=None, p_unlaunched=0.0, sync_straddle=False, source_counters=False, outer_frame=False, corr_zero=False, small_corr=False, tid_base=None, tid_desc=False, post_launch=False, exotic_launch=False, multi_process=False, graph_launch=False, p_zero_launch=0.0, nested_driver=False, p_annotation=0.15, main_autograd_op=False, pid_tid_clash=False, zero_tie=False, sync_tie=False, autograd_threads=1,
)


class Sim:
    def __init__(self, rnd: random.Random, **kw: Any) -> None:
        self.p = dict(DEFAULTS)
        unknown = set(kw) - set(DEFAULTS)
        assert not unknown, unknown
        self.p.update(kw)
        self.r = rnd
        p = self.p
        if p["n_steps"] == 0 and p["pre_ops"] + p["post_ops"] == 0:
            p["pre_ops"] = 1                      # never an empty main thread
        self.rank = p["rank"]
        self.ev: List[Dict[str, Any]] = []
        # CUPTI correlation ids are unsigned 32-bit counters: big ids reach beyond 2^31
        self.corr = self.r.choice([self.r.randint(2 ** 20, 2 ** 30), 2 ** 31 - self.r.randint(1, 40), self.r.randint(2 ** 31, 2 ** 32 - 5000)]) if p["big_corr"] else self.r.randint(1, 50)
        if p["small_corr"] and not p["big_corr"]:
            self.corr = 0
        self.ext = 0
        self.host_pid = 4000 + self.rank
        self.streams = self.r.sample(STREAM_IDS, p["n_streams"])
        self.free_at = {s: 0 for s in self.streams}
        self.last_start = {s: -1 for s in self.streams}
        self.last_dur: Dict[int, int] = {}
        self.wait_until = {s: 0 for s in self.streams}
        self.sync_until = {s: 0 for s in self.streams}
        self.dev_sync_until = 0
        self.last_launch_on: Dict[int, Optional[tuple]] = {s: None for s in self.streams}
        self.records: Dict[int, Dict[str, Any]] = {}
        self.n_event_ids = 0
        self.truth: Dict[str, List[Any]] = {"stream_sync": [], "ctx_sync": [], "event_sync": [], "stream_wait": [], "launch": []}
        self.ops_pool = p["ops_pool"] or (OPS[:3] if p["repeat_names"] else OPS)
        # Linux thread ids go up to 2^22; Kineto records them as they are (the call-stack roots are -tid)
        self.tid0 = p["tid_base"] + 16 * self.rank if p["tid_base"] else self.host_pid
        if p.get("pid_tid_clash") and not p["tid_base"] and not p["multi_process"]:
            # the trainer is process N of its container (main thread: pid N / tid N) and drives GPU N, one of whose streams has the
            # id N: host thread and device stream share the (pid, tid) pair and are told apart by the stream argument only
            self.host_pid = self.tid0 = p["device_pid"] = self.streams[0]
        self.helper = {"t": 0, "tid": self.tid0 + 7, "streams": self.streams}
        self.used_zero = False

    # ------------------------------------------------------------------ helpers
    def d(self, lo: int, hi: int) -> int:
        if self.p["tight"]:
            return self.r.randint(0, 2)
        return self.r.randint(lo, hi)

    def X(self, cat: str, name: str, pid: Any, tid: Any, ts: int, dur: int, args: Optional[Dict[str, Any]] = None) -> Dict[str, Any]:
        e = {"ph": "X", "cat": cat, "name": name, "pid": pid, "tid": tid, "ts": ts, "dur": dur, "args": args if args is not None else {}}
        self.ev.append(e)
        return e

    def newcorr(self, external: bool = False) -> int:
        if self.p["small_corr"]:
            # a fresh process: correlation ids count 1, 2, 3 ... while the row ids of a trace with many host operators grow
            # much faster (all ids < 128 with linked rows >= 128: the narrowest integer type of the two columns differs)
            if external:
                self.ext += 1
                return self.ext
            self.corr += 1
            return self.corr
        self.corr += self.r.choice([1, 1, 2, 5])
        return self.corr

    # ------------------------------------------------------------------ device actions
    def launch(self, th: Dict[str, Any], kind: str) -> None:
        p = self.p
        s = self.r.choice(th["streams"])
        c = self.newcorr()
        if p["corr_zero"] and not self.used_zero and self.r.random() < 0.25:
            c, self.used_zero = 0, True          # correlation id 0 is a legal id (counters start there)
        ts = th["t"]
        dur = max(1, self.d(2, 9))
        if p["p_zero_launch"] and self.r.random() < p["p_zero_launch"]:
            dur = 0                                  # a launch call shorter than the clock resolution
        rname = {"k": self.r.choice(LAUNCH_K), "cpy": "cudaMemcpyAsync", "set": "cudaMemsetAsync"}[kind]
        if p["exotic_launch"] and self.r.random() < 0.3:
            # launch APIs beyond the handful most analyses know by name; the correlation link is what identifies the launch call
            rname = {"k": self.r.choice(["cudaLaunchCooperativeKernel", "cudaGraphLaunch"]), "cpy": self.r.choice(["cudaMemcpy", "cudaMemcpy2DAsync"]),
                     "set": "cudaMemset"}[kind]
        L = self.X("cuda_runtime" if rname != "cuLaunchKernel" else "cuda_driver", rname, th.get("pid", self.host_pid), th["tid"], ts, dur,
                   {"correlation": c, "cbid": 211, "External id": c})
        if rname == "cudaMemcpyAsync":
            self._nest_driver(th, L, "cuMemcpyHtoDAsync_v2")
        if self.r.random() < p["p_unlaunched"]:
            # a launch call whose kernel never shows up in the trace (e.g. profiling stopped)
            th["t"] = ts + dur + self.d(0, 3)
            return
        lat = self.r.choice([0, 0, 1]) if p["tight"] else self.r.choice(p["launch_lat"])
        qlat = self.r.choice([0, 0, 1]) if p["tight"] else self.r.choice(p["queue_lat"])
        # zero_tie: the activity after a zero-duration one may start in the same instant (no overlap; the zero-duration one is first)
        step = 0 if (p["zero_tie"] and self.last_dur.get(s) == 0 and self.r.random() < 0.7) else 1
        start = max(ts + lat, self.free_at[s] + qlat, self.wait_until[s], self.sync_until[s], self.dev_sync_until, self.last_start[s] + step)
        kd = self.r.choice([0, 1, 2, 3]) if p["tight"] else self.r.choice(p["kernel_durs"])
        if step == 0 and start == self.last_start[s]:
            kd = max(kd, 1)                       # at most one zero-duration activity per instant and stream
        self.last_dur[s] = kd
        dargs = {"correlation": c, "stream": s, "device": p["device_pid"], "External id": c, "context": 1}
        if kind == "k":
            nm = self.r.choice(COMP + COMP + COMM + (OTHERK if self.r.random() < 0.05 else []))
            K = self.X("kernel", nm, p["device_pid"], s, start, kd, dict(dargs, **{"registers per thread": 32}))
        elif kind == "cpy":
            K = self.X("gpu_memcpy", self.r.choice(CPY), p["device_pid"], s, start, kd,
                       dict(dargs, **{"bytes": self.r.choice([512, 4096]), "memory bandwidth (GB/s)": self.r.choice([0.5, 1.25, 12.0, 3.75])}))
        else:
            K = self.X("gpu_memset", "Memset (Device)", p["device_pid"], s, start, kd, dict(dargs, **{"bytes": 512, "memory bandwidth (GB/s)": 2.5}))
        self.free_at[s] = start + kd
        self.last_start[s] = start
        if p["graph_launch"] and kind == "k" and self.r.random() < 0.35:
            # a CUDA graph: one launch call, several kernels of the stream that all carry the launch's correlation id
            L["name"] = "cudaGraphLaunch"
            self.last_dur[s] = 1
            for _ in range(self.r.randint(1, 3)):
                st2 = self.free_at[s] + self.r.choice([0, 1, 4])
                kd2 = self.r.choice([1, 2, 7, 30])
                self.X("kernel", self.r.choice(COMP + COMM), p["device_pid"], s, max(st2, self.last_start[s] + 1), kd2, dict(dargs, **{"graph node id": self.r.randint(1, 99)}))
                self.last_start[s] = max(st2, self.last_start[s] + 1)
                self.free_at[s] = self.last_start[s] + kd2
        self.last_launch_on[s] = (L, K)
        self.truth["launch"].append((L, K))
        th["t"] = ts + dur + (self.d(0, 3) if dur else max(1, self.d(0, 3)))

    def _nest_driver(self, th: Dict[str, Any], H: Dict[str, Any], name: str) -> None:
        """The runtime call is a thin wrapper: a driver-API call nested inside it that returns before the wrapper does."""
        if self.p["nested_driver"] and H["dur"] >= 3 and self.r.random() < 0.6:
            d = self.r.randint(1, H["dur"] - 2)
            self.X("cuda_driver", name, th.get("pid", self.host_pid), th["tid"], H["ts"] + 1, d, {})

    def stream_sync(self, th: Dict[str, Any]) -> None:
        s = self.r.choice(self.streams)
        idle = [x for x in self.streams if self.free_at[x] <= th["t"]]
        if idle and any(self.free_at[x] > th["t"] + 3 for x in self.streams) and self.r.random() < 0.5:
            s = self.r.choice(idle)             # waiting for an idle stream while another stream is still busy: returns at once
        c = self.newcorr()
        ts = th["t"]
        end = max(ts + 3, self.free_at[s] + 1)
        H = self.X("cuda_runtime", "cudaStreamSynchronize", th.get("pid", self.host_pid), th["tid"], ts, end - ts, {"correlation": c, "cbid": 131, "External id": c})
        self._nest_driver(th, H, "cuStreamSynchronize")
        S = self.X("cuda_sync", "Stream Sync", self.p["device_pid"], s, ts + 1, end - ts - 2,
                   {"correlation": c, "stream": s, "device": self.p["device_pid"], "cuda_sync_kind": "Stream Sync", "context": 1, "External id": c})
        # sync_tie: work that another thread enqueues during the wait may start in the very instant the sync record completes (one
        # clock tick before the host call returns) and run on after the call has returned: the call did not wait for it
        self.sync_until[s] = max(self.sync_until[s], end - 1 if (self.p["sync_tie"] and end - ts - 2 > 0 and self.r.random() < 0.7) else end)
        self.truth["stream_sync"].append((H, S, s))
        th["t"] = end + self.d(0, 3)

    def dev_sync(self, th: Dict[str, Any]) -> None:
        c = self.newcorr()
        ts = th["t"]
        end = max([ts + 3] + [v + 1 for v in self.free_at.values()])
        H = self.X("cuda_runtime", "cudaDeviceSynchronize", th.get("pid", self.host_pid), th["tid"], ts, end - ts, {"correlation": c, "cbid": 165, "External id": c})
        self._nest_driver(th, H, "cuCtxSynchronize")
        S = self.X("cuda_sync", "Context Sync", self.p["device_pid"], -1, ts + 1, end - ts - 2,
                   {"correlation": c, "stream": -1, "device": self.p["device_pid"], "cuda_sync_kind": "Context Sync", "context": 1, "External id": c})
        self.dev_sync_until = max(self.dev_sync_until, end - 1 if (self.p["sync_tie"] and end - ts - 2 > 0 and self.r.random() < 0.7) else end)
        self.truth["ctx_sync"].append((H, S))
        th["t"] = end + self.d(0, 3)

    def event_record(self, th: Dict[str, Any]) -> None:
        s = self.r.choice(th["streams"])
        c = self.newcorr()
        ts = th["t"]
        self.X("cuda_runtime", "cudaEventRecord", th.get("pid", self.host_pid), th["tid"], ts, 2, {"correlation": c, "cbid": 135, "External id": c})
        self.n_event_ids += 1
        self.records[self.n_event_ids] = {"stream": s, "corr": c, "done": self.free_at[s], "launch": self.last_launch_on[s]}
        th["t"] = ts + 2 + self.d(0, 2)

    def stream_wait(self, th: Dict[str, Any]) -> None:
        if not self.records:
            return self.event_record(th)
        eid = self.r.choice(list(self.records))
        rec = self.records[eid]
        cands = [s for s in self.streams if s != rec["stream"]]
        if not cands:
            return self.event_record(th)
        s2 = self.r.choice(cands)
        c = self.newcorr()
        ts = th["t"]
        H = self.X("cuda_runtime", "cudaStreamWaitEvent", th.get("pid", self.host_pid), th["tid"], ts, 3, {"correlation": c, "cbid": 147, "External id": c})
        S = self.X("cuda_sync", "Stream Wait Event", self.p["device_pid"], s2, ts + 1, 1,
                   {"correlation": c, "stream": s2, "device": self.p["device_pid"], "wait_on_stream": rec["stream"],
                    "wait_on_cuda_event_record_corr_id": rec["corr"], "wait_on_cuda_event_id": eid, "cuda_sync_kind": "Stream Wait Event"})
        self.wait_until[s2] = max(self.wait_until[s2], rec["done"])
        self.truth["stream_wait"].append((H, S, s2, rec["launch"]))
        th["t"] = ts + 3 + self.d(0, 2)

    def event_sync(self, th: Dict[str, Any]) -> None:
        if not self.records:
            return self.event_record(th)
        eid = self.r.choice(list(self.records))
        rec = self.records[eid]
        c = self.newcorr()
        ts = th["t"]
        end = max(ts + 3, rec["done"] + 1)
        H = self.X("cuda_runtime", self.r.choice(["cudaEventSynchronize", "cudaEventQuery"]), th.get("pid", self.host_pid), th["tid"], ts, end - ts,
                   {"correlation": c, "cbid": 138, "External id": c})
        S = self.X("cuda_sync", "Event Sync", self.p["device_pid"], -1, ts + 1, end - ts - 2,
                   {"correlation": c, "stream": -1, "device": self.p["device_pid"], "wait_on_stream": rec["stream"],
                    "wait_on_cuda_event_record_corr_id": rec["corr"], "wait_on_cuda_event_id": eid, "cuda_sync_kind": "Event Sync"})
        self.truth["event_sync"].append((H, S, rec["launch"]))
        th["t"] = end + self.d(0, 2)

    def plain_rt(self, th: Dict[str, Any]) -> None:
        ts = th["t"]
        dur = max(1, self.d(1, 4))
        args: Dict[str, Any] = {"cbid": 20}
        if self.r.random() < 0.7:
            args["correlation"] = self.newcorr()      # non-launch runtime call that carries an id
        self.X("cuda_runtime", self.r.choice(PLAIN_RT), th.get("pid", self.host_pid), th["tid"], ts, dur, args)
        th["t"] = ts + dur + self.d(0, 2)

    # ------------------------------------------------------------------ host programs (generators yield after atomic actions)
    def leaf(self, th: Dict[str, Any]):
        p = self.p
        x = self.r.random()
        if x < p["p_plain_rt"]:
            self.plain_rt(th)
        elif x < p["p_plain_rt"] + (1 - p["p_plain_rt"]) * (1 - p["p_sync"] - p["p_event"]):
            self.launch(th, self.r.choice(["k", "k", "k", "cpy", "set"]))
        elif x < p["p_plain_rt"] + (1 - p["p_plain_rt"]) * (1 - p["p_event"]):
            (self.stream_sync if self.r.random() < 0.6 else self.dev_sync)(th)
        else:
            self.r.choice([self.event_record, self.stream_wait, self.event_sync])(th)
        yield

    def op(self, th: Dict[str, Any], depth: int, names: List[str]):
        p = self.p
        ts = th["t"]
        if self.r.random() < p["p_zero"]:
            if p["avoid_k1"]:                       # keep a zero-duration op clear of its neighbours' endpoints
                th["t"] += 1
                ts = th["t"]
            self.X("cpu_op", self.r.choice(names), th.get("pid", self.host_pid), th["tid"], ts, 0, {"External id": self.newcorr(True)})
            if p["avoid_k1"]:
                th["t"] += 1
            yield
            return
        cat = "user_annotation" if (p["annotation_nest"] and self.r.random() < p["p_annotation"]) else "cpu_op"
        nm = self.r.choice(names) if cat == "cpu_op" else self.r.choice(["my_region", "fwd_block"])
        e = self.X(cat, nm, th.get("pid", self.host_pid), th["tid"], ts, 0, {"External id": self.newcorr(True)} if cat == "cpu_op" else {})
        th["t"] += self.d(0, 2)
        for _ in range(self.r.randint(*p["p_leaf_children"])):
            if depth < p["max_depth"] and self.r.random() < 0.4:
                yield from self.op(th, depth + 1, names)
            else:
                yield from self.leaf(th)
        th["t"] += self.d(0, 2)
        if th["t"] == ts:
            th["t"] += 1
        e["dur"] = th["t"] - ts
        th["t"] += self.d(0, 2)
        yield

    def main_prog(self, th: Dict[str, Any]):
        p = self.p
        outer = None
        if p["outer_frame"]:
            # the training loop's own frame (with_stack=True) or an outer record_function encloses everything on the main thread
            outer = self.X(self.r.choice(["python_function", "user_annotation"]), "train.py(42): train_loop", th.get("pid", self.host_pid), th["tid"], th["t"], 0, {})
            outer_ts = th["t"]
            th["t"] += self.r.choice([0, 1])
        yield from self._main_body(th)
        if outer is not None:
            th["t"] += self.r.choice([0, 1])
            outer["dur"] = max(1, th["t"] - outer_ts)
            th["t"] = outer_ts + outer["dur"]
            yield

    def _main_body(self, th: Dict[str, Any]):
        p = self.p
        for _ in range(p["pre_ops"]):
            yield from self.op(th, 0, self.ops_pool)
        first = p["first_step"] if p["first_step"] is not None else self.r.randint(3, 900)
        for k in range(p["n_steps"]):
            ts = th["t"]
            if p["sync_straddle"] and self.r.random() < 0.6 and ts - 1 >= self.helper["t"] and ts - 1 >= p["base"]:
                # a helper thread issues a device / stream synchronisation 1us before the step opens: its cuda_sync event
                # lies inside the step's window, the host call outside
                self.helper["t"] = ts - 1
                (self.dev_sync if self.r.random() < 0.7 else self.stream_sync)(self.helper)
            e = self.X("user_annotation", f"ProfilerStep#{first + k}", th.get("pid", self.host_pid), th["tid"], ts, 0, {})
            th["t"] += self.r.choice([0, 1])
            for _ in range(self.r.randint(*p["ops_per_step"])):
                yield from self.op(th, 0, self.ops_pool)
            if p["main_autograd_op"] and self.r.random() < 0.6:
                # the main thread itself runs an autograd function now and then (e.g. a checkpointed block recomputed in forward)
                yield from self.op(th, 0, BWD[:1])
            if p["autograd"] and self.r.random() < 0.85:
                bts = th["t"]
                b = self.X("user_annotation", "## backward ##" if p["bwd_annotation"] else "loss.backward", th.get("pid", self.host_pid), th["tid"], bts, 0, {})
                th["t"] += 1
                th["bwd_window"] = bts
                yield
                th["t"] += self.d(20, 60)
                b["dur"] = th["t"] - bts
                th["bwd_window"] = None
                th["t"] += self.r.choice([0, 1])
            if th["t"] == ts:
                th["t"] += 1
            e["dur"] = th["t"] - ts
            step_end = th["t"]
            th["t"] += self.r.choice(p["step_gap"])
            yield
            if p["post_launch"] and k == p["n_steps"] - 1:
                # a bare launch call right after the last step; most of the time it starts exactly when the step ends
                # (the boundary of "no later than its end" when the last step is kept)
                if self.r.random() < 0.7:
                    th["t"] = step_end
                self.launch(th, self.r.choice(["k", "cpy"]))
                yield
        for _ in range(p["post_ops"]):
            yield from self.op(th, 0, self.ops_pool)

    def side_prog(self, th: Dict[str, Any], names: List[str]):
        for _ in range(self.r.randint(2, 8)):
            th["t"] += self.d(0, 30)
            yield from self.op(th, 1, names)

    # ------------------------------------------------------------------ run
    def run(self) -> Dict[str, Any]:
        p = self.p
        t0 = p["base"] + self.r.randint(0, 50)
        ths = []
        for i in range(p["n_threads"]):
            th = {"t": t0 + i * self.r.randint(0, 5), "tid": self.tid0 + ((6 - i) if p["tid_desc"] else i),     # tid_desc: worker / autograd threads sort before the main thread
                  "streams": self.streams if i == 0 else self.r.sample(self.streams, max(1, len(self.streams) - 1))}
            if i == 0:
                prog = self.main_prog(th)
            else:
                if p["multi_process"] and not (p["autograd"] and 1 <= i <= p["autograd_threads"]):
                    # a worker in another host process of the same rank (data loader, launcher) whose thread id equals the
                    # main thread's: threads are identified by (pid, tid)
                    th["pid"] = self.host_pid + 100 * i
                    th["tid"] = ths[0][0]["tid"]
                # autograd_threads > 1: several autograd worker threads (one per device in DataParallel, or re-entrant backward)
                prog = self.side_prog(th, BWD if (p["autograd"] and 1 <= i <= p["autograd_threads"]) else self.ops_pool)
            ths.append((th, prog))
        for s in self.streams:
            self.free_at[s] = t0
        live = list(ths)
        while live:
            live.sort(key=lambda q: q[0]["t"])
            th, prog = live[0]
            try:
                next(prog)
            except StopIteration:
                live.pop(0)
        end = max(e["ts"] + e["dur"] for e in self.ev)
        evs = list(self.ev)
        if p["file_order"] == "shuffled":
            self.r.shuffle(evs)
        elif p["file_order"] == "grouped":        # Kineto-like: host ops, then runtime, then device
            order = {"cpu_op": 0, "user_annotation": 0, "cuda_runtime": 1, "cuda_driver": 1}
            evs.sort(key=lambda e: order.get(e["cat"], 2))
        elif p["file_order"] == "by_ts":          # truly chronological: a queued kernel comes after a later launch's kernel
            evs.sort(key=lambda e: e["ts"])
        elif p["file_order"] == "device_by_stream":   # host in recording order, then the device records stream by stream
            dev = [e for e in evs if e["pid"] == p["device_pid"] and e["cat"] not in ("cpu_op", "user_annotation", "cuda_runtime", "cuda_driver")]
            ids = {id(e) for e in dev}
            dev.sort(key=lambda e: (str(e["tid"]), e["ts"]))
            evs = [e for e in evs if id(e) not in ids] + dev
        # event 0 of the file is a host operator (the link sentinel 0 must not denote a launch or kernel)
        first = next(i for i, e in enumerate(evs) if e["cat"] in ("cpu_op", "user_annotation"))
        evs = [evs[first]] + evs[:first] + evs[first + 1:]
        flows = []
        for e in evs:
            if e["cat"] in ("cuda_runtime", "cuda_driver") and "Launch" in e["name"]:
                flows.append({"ph": "s", "id": e["args"]["correlation"], "pid": e["pid"], "tid": e["tid"], "ts": e["ts"], "cat": "ac2g", "name": "ac2g"})
        meta = [{"ph": "M", "name": "process_name", "pid": self.host_pid, "tid": 0, "ts": t0, "args": {"name": "python"}},
                {"ph": "M", "name": "thread_name", "pid": self.host_pid, "tid": self.host_pid, "ts": t0, "args": {"name": "thread 1"}},
                {"ph": "X", "cat": "Trace", "name": f"PyTorch Profiler ({self.rank})", "pid": "Spans", "tid": "PyTorch Profiler", "ts": t0,
                 "dur": end - t0 + 10, "args": {"Op count": 0}},
                {"ph": "i", "name": "Record Window End", "pid": "", "tid": "", "ts": end + 10, "s": "g"}]
        if p["source_counters"]:
            # traces may already carry counter tracks (power, memory, an earlier *_with_counters run)
            for k in range(self.r.randint(1, 4)):
                meta.append({"ph": "C", "name": self.r.choice(["GPU 0 power (W)", "Queue Length", "[memory]"]), "pid": self.r.choice([0, self.host_pid]),
                             "tid": 0, "ts": t0 + self.r.randint(0, max(1, end - t0)), "args": {"value": self.r.randint(0, 300)}})
        # interleave the non-complete entries so ids are not contiguous
        extra = flows + meta
        self.r.shuffle(extra)
        out = evs[:1]
        rest = evs[1:]
        cut = sorted(self.r.randint(0, len(rest)) for _ in extra)
        k = 0
        for j, e in enumerate(rest + [None]):
            while k < len(cut) and cut[k] == j:
                out.append(extra[k])
                k += 1
            if e is not None:
                out.append(e)
        return {"schemaVersion": 1, "distributedInfo": {"backend": "nccl", "rank": self.rank, "world_size": 8},
                "traceEvents": out, "traceName": f"rank{self.rank}.json"}


def gen_trace(rnd: random.Random, **kw: Any) -> Dict[str, Any]:
    return Sim(rnd, **kw).run()


def gen_trace_with_truth(rnd: random.Random, **kw: Any):
    """-> (trace, truth) where truth names events by correlation id (JSON-serialisable):
    stream_sync [(host corr, stream)], ctx_sync [host corr], event_sync [(host corr, src launch corr | None)],
    stream_wait [(host corr, waiting stream, src launch corr | None)]."""
    sim = Sim(rnd, **kw)
    tr = sim.run()
    c = lambda e: e["args"]["correlation"]  # noqa: E731
    truth = {
        "stream_sync": [[c(H), s] for H, S, s in sim.truth["stream_sync"]],
        "ctx_sync": [c(H) for H, S in sim.truth["ctx_sync"]],
        "event_sync": [[c(H), c(l[0]) if l else None] for H, S, l in sim.truth["event_sync"]],
        "stream_wait": [[c(H), s2, c(l[0]) if l else None] for H, S, s2, l in sim.truth["stream_wait"]],
    }
    return tr, truth


def drop_events(rnd: random.Random, trace: Dict[str, Any], p_launch: float, p_kernel: float, p_sync: float = 0.0) -> int:
    """Remove some launch calls / device activities / sync partners (never event 0).  Returns #dropped."""
    ev = trace["traceEvents"]
    keep, n = [], 0
    for i, e in enumerate(ev):
        if i > 0 and e.get("ph") == "X":
            c = e.get("cat")
            if c in ("kernel", "gpu_memcpy", "gpu_memset") and rnd.random() < p_kernel:
                n += 1
                continue
            if c in ("cuda_runtime", "cuda_driver") and "correlation" in e.get("args", {}) and rnd.random() < p_launch:
                n += 1
                continue
            if c == "cuda_sync" and rnd.random() < p_sync:
                n += 1
                continue
        keep.append(e)
    trace["traceEvents"] = keep
    return n


def random_params(rnd: random.Random, tier: str, **over: Any) -> Dict[str, Any]:
    """A random parameter set covering the knobs; `over` pins some of them."""
    p = dict(
        n_threads=rnd.choice([1, 1, 2, 3]), n_streams=rnd.choice([1, 2, 2, 3, 4]), n_steps=rnd.choice([0, 1, 2, 2, 3, 5]),
        base=rnd.choice([0, 0, 7, 100, 30000, 10 ** 6, 2 ** 31 - 2000, 1_700_000_000_000_000]),
        tight=rnd.random() < 0.3, p_zero=rnd.choice([0.0, 0.1, 0.25]), p_sync=rnd.choice([0.0, 0.15, 0.3]),
        p_event=rnd.choice([0.0, 0.1, 0.2]), max_depth=rnd.choice([1, 3, 5]), ops_per_step=rnd.choice([(1, 2), (2, 5), (3, 8)]),
        big_corr=rnd.random() < 0.3, autograd=rnd.random() < 0.3, bwd_annotation=rnd.random() < 0.6,
        pre_ops=rnd.choice([0, 1, 2]), post_ops=rnd.choice([0, 1, 2]),
        file_order=rnd.choice(["time", "time", "grouped", "shuffled", "by_ts", "device_by_stream"]), repeat_names=rnd.random() < 0.3,
        annotation_nest=rnd.random() < 0.3, p_unlaunched=rnd.choice([0.0, 0.0, 0.1]), sync_straddle=rnd.random() < 0.3, source_counters=rnd.random() < 0.25, outer_frame=rnd.random() < 0.2, corr_zero=rnd.random() < 0.3,
    )
    p["small_corr"] = rnd.random() < 0.35 and not p["big_corr"]
    p["tid_base"] = rnd.choice([None, None, None, 33000, 40000, 140737, 2 ** 22 - 200, 1, -4200])      # 1: python is PID 1 of a container (tids 1, 2, 3)
    p["tid_desc"] = rnd.random() < 0.3
    p["post_launch"] = rnd.random() < 0.3
    p["multi_process"] = rnd.random() < 0.2
    p["pid_tid_clash"] = rnd.random() < 0.08
    if p["autograd"]:
        p["n_threads"] = max(2, p["n_threads"])
    if tier == "thorough" and rnd.random() < 0.15:
        # larger traces: more steps, more operators per step, deeper nesting
        p.update(n_steps=rnd.choice([3, 5, 8]), ops_per_step=rnd.choice([(8, 16), (10, 25)]), max_depth=rnd.choice([3, 5, 7]))
    p.update(over)
    return p


def scaled_files(files: Dict[str, Any], unit: float) -> Dict[str, Any]:
    """The same trace recorded at sub-microsecond resolution: every ts / dur multiplied by a dyadic constant (exact in
    doubles).  Loaded with HTA_DISABLE_NS_ROUNDING=1 the time columns are float and edge weights fractional."""
    import copy

    out = copy.deepcopy(files)
    for tr in out.values():
        for e in tr["traceEvents"]:
            if isinstance(e, dict):
                for k in ("ts", "dur"):
                    if isinstance(e.get(k), (int, float)) and not isinstance(e.get(k), bool):
                        e[k] = e[k] * unit
    return out


def pick_first_step(rnd: random.Random, lo: int = 1, hi: int = 500) -> int:
    """Number of the first profiler step.  One time in four the steps cross a digit-count boundary (…8, 9, 10, 11…), where
    the numeric and the lexicographic order of the step names differ."""
    if rnd.random() < 0.25:
        return max(lo, rnd.choice([9, 99, 999]) - rnd.choice([0, 0, 1, 2]))
    return rnd.randint(lo, hi)


def huge_trace(seed: int, rank: int = 0, **over: Any) -> Dict[str, Any]:
    """A deterministic trace with more than 32767 events (row ids beyond int16), for the thorough tiers."""
    rnd = random.Random(seed)
    p = random_params(rnd, "thorough", rank=rank, first_step=5, n_steps=90, ops_per_step=(80, 110), max_depth=3, avoid_k1=True,
                      autograd=False, n_threads=2, base=1000, file_order="time", outer_frame=False)
    p.update(over)
    return gen_trace(rnd, **p)


def clone_reordered(rnd: random.Random, trace: Dict[str, Any], rank: int) -> Dict[str, Any]:
    """The same events as another rank's file under another rank label and in another file order: the rank brings no symbol of
    its own, only another order of first appearance (its local symbol ids differ from the global ones)."""
    import copy
    tr = copy.deepcopy(trace)
    tr["distributedInfo"]["rank"] = rank
    evs = tr["traceEvents"]
    xs = [e for e in evs if e.get("ph") == "X"]
    others = [e for e in evs if e.get("ph") != "X"]
    rnd.shuffle(xs)
    # event 0 of the file stays a host operator (the link sentinel 0 must not denote a launch or a kernel)
    first = next((i for i, e in enumerate(xs) if e.get("cat") in ("cpu_op", "user_annotation")), None)
    if first is not None:
        xs.insert(0, xs.pop(first))
    tr["traceEvents"] = xs + others
    return tr


def add_device_spans(rnd: random.Random, trace: Dict[str, Any], p: float = 0.5) -> int:
    """Insert device-side events that are NOT kernels / copies / memsets / sync records but carry a stream id: GPU-side user
    annotations and profiler ranges spanning a run of kernels of one stream.  They are legitimate trace content and must not be
    taken for kernels by per-stream analyses.  Appended after the existing events (ids of the others stay).  Returns #added."""
    ev = trace["traceEvents"]
    by_stream: Dict[Any, List[Dict[str, Any]]] = {}
    for e in ev:
        if e.get("ph") == "X" and e.get("cat") in ("kernel", "gpu_memcpy", "gpu_memset") and isinstance(e.get("args"), dict) and "stream" in e["args"]:
            by_stream.setdefault((e["pid"], e["args"]["stream"]), []).append(e)
    n = 0
    for (pid, s), ks in sorted(by_stream.items(), key=lambda kv: str(kv[0])):
        ks.sort(key=lambda e: e["ts"])
        if len(ks) < 2 or rnd.random() > p:
            continue
        a = rnd.randrange(len(ks) - 1)
        b = rnd.randrange(a + 1, len(ks))
        ts = ks[a]["ts"]
        end = max(k["ts"] + k["dur"] for k in ks[a:b + 1])
        ev.append({"ph": "X", "cat": rnd.choice(["gpu_user_annotation", "gpu_user_annotation", "cuda_profiler_range"]),
                   "name": rnd.choice(["## forward ##", "nccl:all_reduce", "region_of_interest"]), "pid": pid, "tid": s, "ts": ts,
                   "dur": max(1, end - ts), "args": {"stream": s, "device": pid}})
        n += 1
    return n


def add_gpu_annotation_pairs(rnd: random.Random, trace: Dict[str, Any], p: float = 0.7) -> int:
    """GPU-side user annotations as Kineto writes them (pid = device, tid = stream, no stream argument), in pairs of identical
    extent with different names (a module annotation and its wrapper), each spanning a run of kernels of the stream."""
    ev = trace["traceEvents"]
    by_stream: Dict[Any, List[Dict[str, Any]]] = {}
    for e in ev:
        if e.get("ph") == "X" and e.get("cat") in ("kernel", "gpu_memcpy", "gpu_memset") and isinstance(e.get("args"), dict) and "stream" in e["args"]:
            by_stream.setdefault((e["pid"], e["args"]["stream"]), []).append(e)
    names = ["model.forward", "DistributedDataParallel.forward", "loss_fn", "criterion#CrossEntropy", "## backward ##", "optimizer.step", "zz_wrapper", "aa_wrapper"]
    n = 0
    for (pid, s), ks in sorted(by_stream.items(), key=lambda kv: str(kv[0])):
        ks.sort(key=lambda e: e["ts"])
        if len(ks) < 2 or rnd.random() > p:
            continue
        a = rnd.randrange(len(ks) - 1)
        b = rnd.randrange(a + 1, len(ks))
        ts = ks[a]["ts"]
        end = max(k["ts"] + k["dur"] for k in ks[a:b + 1])
        for nm in rnd.sample(names, 2):
            ev.append({"ph": "X", "cat": "gpu_user_annotation", "name": nm, "pid": pid, "tid": s, "ts": ts, "dur": max(1, end - ts),
                       "args": {"External id": 900000 + n}})
            n += 1
    return n


def mirror_annotations(rnd: random.Random, trace: Dict[str, Any], p: float = 0.6) -> int:
    """Kineto mirrors a host user annotation (record_function) on the device: a `gpu_user_annotation` of the SAME name on the lane of
    a stream (pid = device, tid = stream, no stream / correlation argument), spanning the kernels launched within the host
    annotation.  Profiler-step annotations are not mirrored (as in the sample traces).  Appended after the existing events."""
    ev = trace["traceEvents"]
    xs = [e for e in ev if e.get("ph") == "X"]
    launches = {}
    for e in xs:
        a = e.get("args")
        if e.get("cat") in ("cuda_runtime", "cuda_driver") and isinstance(a, dict) and "correlation" in a:
            launches.setdefault(a["correlation"], []).append(e)
    kernels = [e for e in xs if e.get("cat") in ("kernel", "gpu_memcpy", "gpu_memset") and isinstance(e.get("args"), dict) and "correlation" in e["args"]]
    n = 0
    lanes: Dict[Any, List[tuple]] = {}
    for A in [e for e in xs if e.get("cat") == "user_annotation" and not str(e.get("name", "")).startswith("ProfilerStep")]:
        if rnd.random() > p:
            continue
        inside = []
        for k in kernels:
            for L in launches.get(k["args"]["correlation"], []):
                if (L.get("pid"), L.get("tid")) == (A.get("pid"), A.get("tid")) and A["ts"] <= L["ts"] and L["ts"] + L["dur"] <= A["ts"] + A["dur"]:
                    inside.append(k)
        if not inside:
            continue
        k0 = min(inside, key=lambda k: k["ts"])
        ts = k0["ts"]
        end = max(max(k["ts"] + k["dur"] for k in inside), ts + 1)
        lane = lanes.setdefault((k0["pid"], k0["tid"]), [])
        if any(not (end <= c or d <= ts or (c <= ts and end <= d) or (ts <= c and d <= end)) for c, d in lane):
            continue                      # the annotations of one lane nest or are disjoint
        lane.append((ts, end))
        ev.append({"ph": "X", "cat": "gpu_user_annotation", "name": A["name"], "pid": k0["pid"], "tid": k0["tid"], "ts": ts, "dur": max(1, end - ts),
                   "args": {"External id": (A.get("args") or {}).get("External id", 0)}})
        n += 1
    return n


def twin_thread(trace: Dict[str, Any], tid_offset: int = 50, stream_offset: int = 100, corr_offset: int = 10 ** 6) -> None:
    """Append a copy of the main host thread - same operators, same timestamps - as a second thread of the same process, with
    its own correlation ids and its own streams (two workers doing the same work in lockstep)."""
    import copy

    ev = trace["traceEvents"]
    first = ev[0]
    main = (first.get("pid"), first.get("tid"))
    corrs = set()
    add = []
    for e in ev:
        if e.get("ph") == "X" and (e.get("pid"), e.get("tid")) == main and e.get("cat") in ("cpu_op", "user_annotation", "cuda_runtime", "cuda_driver", "python_function") \
                and not str(e.get("name")).startswith("ProfilerStep"):          # the profiler's step annotations stay on one thread
            c = copy.deepcopy(e)
            c["tid"] = e["tid"] + tid_offset
            a = c.get("args") if isinstance(c.get("args"), dict) else {}
            if "correlation" in a:
                corrs.add(a["correlation"])
                a["correlation"] += corr_offset
            if "External id" in a:
                a["External id"] += corr_offset
            add.append(c)
    for e in ev:
        a = e.get("args") if isinstance(e.get("args"), dict) else {}
        if e.get("ph") == "X" and e.get("cat") in ("kernel", "gpu_memcpy", "gpu_memset", "cuda_sync") and a.get("correlation") in corrs:
            c = copy.deepcopy(e)
            c["args"]["correlation"] += corr_offset
            if "External id" in c["args"]:
                c["args"]["External id"] += corr_offset
            if isinstance(c["args"].get("stream"), int) and c["args"]["stream"] > 0:
                c["args"]["stream"] += stream_offset
                c["tid"] = c["args"]["stream"]
            add.append(c)
    ev.extend(add)
