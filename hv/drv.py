"""Driving the real library: guarded calls (an exception raised by hta on an in-regime input is a
violation; one raised by harness/oracle code is inconclusive), trace loading helpers."""
from __future__ import annotations

import os
import traceback
from typing import Any, Callable, Dict, List, Optional, Tuple

from hv import core


class ContractBroken(Exception):
    """Raised by a harness-attached contract (pre/post-condition, invariant) on the real function."""

    def __init__(self, name: str, detail: str = "") -> None:
        super().__init__(f"{name}: {detail}")
        self.name, self.detail = name, detail


def _hta_frames(e: BaseException) -> List[str]:
    out = []
    for fr in traceback.extract_tb(e.__traceback__):
        fn = os.path.realpath(fr.filename)
        if "/hta/" in fn and "/hv/" not in fn:
            out.append(f"{fn.split('/hta/', 1)[1]}:{fr.lineno}:{fr.name}")
    return out


def guard(res: core.CaseResult, what: str, fn: Callable, *a: Any, **k: Any) -> Tuple[bool, Any]:
    """Call the real code.  Returns (ok, value).  hta exceptions become violations of clause
    'no-exception:<what>'; ContractBroken becomes 'contract:<name>'; HarnessError propagates."""
    try:
        return True, fn(*a, **k)
    except core.HarnessError:
        raise
    except ContractBroken as e:
        res.bad(f"contract:{e.name}", f"{what}: {e.detail}", contract=e.name)
        return False, None
    except BaseException as e:  # noqa: BLE001
        if isinstance(e, (KeyboardInterrupt, MemoryError)):
            raise
        frames = _hta_frames(e)
        last = traceback.extract_tb(e.__traceback__)[-1]
        where = frames[-1] if frames else f"{os.path.basename(last.filename)}:{last.lineno}:{last.name}"
        if not frames and "/hv/" in os.path.realpath(last.filename):
            # raised inside harness code that hta never entered: harness problem
            raise core.HarnessError(f"{what}: {type(e).__name__}: {e} at {where}") from e
        res.bad(f"no-exception:{what}", f"{what} raised {type(e).__name__}: {core.short(str(e), 300)} at {where}",
                exc_type=type(e).__name__, where=where, frames=frames[-4:], exc_msg=str(e)[:300])
        return False, None


PARSER_VARIANTS = ["default", "default", "minimum", "complete", "all_args", "selected", "comm", "bandwidth_first", "skip_types"]


def parser_config(variant: str):
    """A user-chosen ParserConfig (None = library default).  Every variant keeps `stream` and `correlation`, the two args
    columns the properties speak about; the rest of the selection must not change any documented column."""
    from hta.configs.parser_config import ParserConfig

    if variant in (None, "default"):
        return None
    if variant == "minimum":
        return ParserConfig(args=ParserConfig.get_minimum_args())
    if variant == "complete":
        return ParserConfig(args=list(ParserConfig.ARGS_COMPLETE))
    if variant == "all_args":
        return ParserConfig(parse_all_args=True)
    if variant == "selected":
        c = ParserConfig()
        c.set_args_selector(["correlation", "stream", "bytes"])
        return c
    if variant == "comm":
        return ParserConfig.enable_communication_args(ParserConfig())
    if variant == "skip_types":
        # honoured by the ijson backends only (documented); with the JSON backend every complete event is still loaded
        return ParserConfig(skip_event_types={"python_function", "gpu_memcpy", "cuda_sync", "kernel"})
    if variant == "bandwidth_first":
        return ParserConfig(args=list(ParserConfig.ARGS_BANDWIDTH) + list(ParserConfig.ARGS_SYNC) + ParserConfig.get_minimum_args())
    raise ValueError(variant)


def new_trace(dirpath: str, files: Optional[Dict[int, str]] = None, parser: Optional[str] = None):
    from hta.common.trace import Trace

    kw = {}
    pc = parser_config(parser)
    if pc is not None:
        kw["parser_config"] = pc
    if files is not None:
        return Trace(trace_files=dict(files) if isinstance(files, dict) else list(files), trace_dir=dirpath, **kw)
    return Trace(trace_dir=dirpath, **kw)


def new_trace_same_mapping(dirpath: str, files: Any, parser: Optional[str] = None):
    """Like new_trace, but hands the caller's own mapping / list object to the constructor (no defensive copy)."""
    from hta.common.trace import Trace

    kw = {}
    pc = parser_config(parser)
    if pc is not None:
        kw["parser_config"] = pc
    return Trace(trace_files=files, trace_dir=dirpath, **kw)


def new_analysis(dirpath: str, files: Optional[Dict[int, str]] = None, **kw: Any):
    from hta.trace_analysis import TraceAnalysis

    if files is not None:
        return TraceAnalysis(trace_files=dict(files), trace_dir=dirpath, **kw)
    return TraceAnalysis(trace_dir=dirpath, **kw)


def sym_table(trace) -> List[str]:  # noqa: ANN001
    return trace.symbol_table.get_sym_table()


def rows(df, cols: List[str]) -> List[tuple]:  # noqa: ANN001
    """Plain python rows of selected columns (ints where integral)."""
    out = []
    arrs = [df[c].tolist() for c in cols]
    for t in zip(*arrs):
        out.append(t)
    return out
