"""Shared driver for the critical-path properties (C08, C09, C10, C19, C20): G-sim workload, loading
through the public entry point, window selection, running TraceAnalysis.critical_path_analysis under
the edge logger, and the reference expectations for each analysed window."""
from __future__ import annotations

from dataclasses import dataclass
from typing import Any, Dict, Iterator, List, Optional, Tuple

from hv import core, drv, gen_sim, wf
from hv.mon import cplog
from hv.ref import cp as refcp
from hv.ref import load as refload
from hv.ref import raw


def gen_case(rnd, tier: str, i: Any, **over: Any) -> Dict[str, Any]:
    n_ranks = rnd.choice([1, 1, 1, 2])
    first_step = gen_sim.pick_first_step(rnd, 3)
    n_steps = rnd.choice([0, 1, 1, 2, 2, 3, 3, 5])    # every rank carries the same step set
    files, truths = {}, {}
    # launch APIs outside the short list the queue-length counters know by name (blocking cudaMemcpy, cudaGraphLaunch ...)
    exotic = rnd.random() < 0.25
    zero_tie = rnd.random() < 0.3
    sync_tie = rnd.random() < 0.4
    for r in range(n_ranks):
        p = gen_sim.random_params(rnd, tier, rank=r, first_step=first_step, avoid_k1=True, n_steps=n_steps, p_zero_launch=rnd.choice([0.0, 0.0, 0.2]),
                                  nested_driver=rnd.random() < 0.35, exotic_launch=exotic,
                                  # known finding K4 (recorded under C03): the call-stack builder behind this analysis loses a host
                                  # thread that shares its (pid, tid) pair with a device stream; its graphs would only re-report that
                                  pid_tid_clash=False,
                                  # a zero-duration kernel and the next kernel of its stream starting in the same instant
                                  zero_tie=zero_tie,
                                  # a kernel of another thread starting in the instant a sync record completes
                                  sync_tie=sync_tie)
        p.update(over)
        tr, truth = gen_sim.gen_trace_with_truth(rnd, **p)
        files[f"rank{r}.json"] = tr
        truths[str(r)] = truth
    return {"files": files, "truth": truths, "rank": rnd.randrange(n_ranks), "zero_weight": rnd.random() < 0.4,
            "win_seed": rnd.randrange(10 ** 9), "inc_last": rnd.random() < 0.3, "time_unit": rnd.choice([1, 1, 1, 1, 0.125, 0.375]),
            # history: the trace's symbol ids decoded into s_name / s_cat columns (full names) before the analysis, as the
            # CUPTI counter analysis and notebooks do
            "pre_decode": rnd.random() < 0.3}


@dataclass
class Analysed:
    ta: Any
    rank: int
    view: refcp.View
    annotation: str
    instance: Any
    win: Tuple[int, int]
    exp: refcp.Expect
    graph: Any
    ok: Any
    log: List[tuple]
    zero_weight: bool
    workdir: str
    raw_trace: Dict[str, Any]
    model: List[raw.Ev]
    min_ts: int


def choose_windows(rnd, view: refcp.View, n: int) -> List[Tuple[str, Any]]:
    steps = refcp.annotation_instances(view, "ProfilerStep")
    wins: List[Tuple[str, Any]] = [("", None)]
    for k in range(len(steps)):
        wins.append(("ProfilerStep", k))
    if len(steps) >= 2:
        a = rnd.randrange(len(steps) - 1)
        wins.append(("ProfilerStep", (a, rnd.randrange(a + 1, len(steps)))))
    if steps:
        wins.append((rnd.choice(steps).name, 0))
        wins.append(("ProfilerStep", None))
    for nm in ("my_region", "fwd_block", "## backward ##"):
        inst = refcp.annotation_instances(view, nm)
        if inst:
            wins.append((nm, rnd.randrange(len(inst))))
    rnd.shuffle(wins)
    return wins[:n]


def prepare(case: Dict[str, Any], ctx: Any, res: core.CaseResult, need_causal: bool = True):
    """Regime checks, write files, load.  Returns (ta, models, loaded, dir) or None (discarded / violation)."""
    models = {}
    for fn, tr in case["files"].items():
        m = raw.model(tr["traceEvents"])
        why = wf.well_formed(m, tr["traceEvents"])
        if not why and need_causal:
            why = wf.causal(m, zero_len_shared_start_ok=True)
        if why:
            res.discarded, res.discard_reason = True, "out of regime: " + why.split(":")[0][:60]
            return None
        models[tr["distributedInfo"]["rank"]] = m
    # optional edits applied AFTER the regime check (C19: a child operator that ends 1us after its parent, the tolerated
    # rounding artefact that makes the analysis clamp a -1 weight) - the models are rebuilt from the edited files
    if case.get("post_edits"):
        for fn, idx, dur in case["post_edits"]:
            case["files"][fn]["traceEvents"][idx]["dur"] = dur
        models = {tr["distributedInfo"]["rank"]: raw.model(tr["traceEvents"]) for tr in case["files"].values()}
        case = dict(case, post_edits=None)
    d = ctx.scratch.new("cp")
    core.write_trace_files(d, case["files"])
    ok, ta = drv.guard(res, "TraceAnalysis(load)", drv.new_analysis, d, **({"include_last_profiler_step": True} if case.get("inc_last") else {}))
    if not ok:
        return None
    if case.get("inc_last"):
        res.counters["loads_including_last_step"] += 1
    if case.get("pre_decode"):
        drv.guard(core.CaseResult(), "decode_symbol_ids", ta.t.decode_symbol_ids, False)
        res.counters["analyses_after_decode_symbol_ids"] += 1
    ld = refload.loaded(models, case.get("inc_last", False))
    return ta, models, ld, d, case


def analyse(case: Dict[str, Any], ctx: Any, res: core.CaseResult, max_windows: int = 3, cleanup: bool = True) -> Iterator[Analysed]:
    """cleanup=False: the caller removes the work directory (ctx.scratch.drop(A.workdir)); the shard removes everything at its end anyway."""
    cplog.install(ctx)
    prep = prepare(case, ctx, res)
    if prep is None:
        return
    ta, models, ld, d, case = prep
    try:
        rank = case["rank"]
        kept = ld.kept[rank]
        if not kept:
            res.discarded, res.discard_reason = True, "nothing left after trimming"
            return
        view = refcp.make_view(kept, models[rank], ld.min_ts)
        rnd = core.rng("win", case["win_seed"])
        tr = next(t for t in case["files"].values() if t["distributedInfo"]["rank"] == rank)
        for annotation, inst in (case.get("force_windows") or choose_windows(rnd, view, max_windows)):
            inst_t = (0, 0) if inst is None else (inst if isinstance(inst, tuple) else (inst, inst))
            win = refcp.window(view, annotation, inst_t)
            if win is None:
                continue
            exp = refcp.expect(view, win)
            if not [e for e in exp.analysed if e.cat != "cuda_sync"]:
                # nothing that carries an edge (the library asserts a path of >= 2 nodes): analysing nothing is not judged
                res.counters["empty_windows_skipped"] += 1
                continue
            cplog.take()
            with core.env(CRITICAL_PATH_ADD_ZERO_WEIGHT_LAUNCH_EDGE="1" if case["zero_weight"] else None):
                okc, out = drv.guard(res, "critical_path_analysis", ta.critical_path_analysis, rank, annotation, inst)
            log = cplog.take()
            if not okc:
                res.violations[-1].witness.update(annotation=annotation, instance=str(inst), rank=rank,
                                                  n_logged_edges=len(log), all_logged_weights_zero=bool(log) and all(l[5] == 0 for l in log),
                                                  names=sorted({e.name for e in models[rank]} & {"cudaStreamWaitEvent", "Stream Wait Event", "cudaEventRecord"}),
                                                  n_linked_launch=sum(1 for e in view.evs if e.stream > 0 and view.link.get(e.id, -1) > 0))
                res.counters["analysis_raised"] += 1
                continue
            if out is None or not isinstance(out, tuple):
                res.bad("analysis-returns-graph", f"critical_path_analysis(rank={rank}, annotation={annotation!r}, instance={inst}) returned {out!r}")
                continue
            g, ok = out
            res.counters["graphs"] += 1
            yield Analysed(ta, rank, view, annotation, inst, win, exp, g, ok, log, case["zero_weight"], d, tr, models[rank], ld.min_ts)
    finally:
        if cleanup:
            ctx.scratch.drop(d)
