"""C20 — trace files written by the tool preserve every source event."""
from __future__ import annotations

import collections
import copy
import gzip
import json
import os
from typing import Any, Dict, List, Optional

from hv import core, cpdrv, drv, gen_struct
from hv.ref import cp as refcp

ID = "C20"
RULE = ("(1) *_with_counters files and (2) critical-path overlays written from ONE TraceAnalysis object in random multi-step sequences "
        "(overlay of window A, overlay of window B, counters, overlay again ...) over G-sim traces (.json and .json.gz, every overlay "
        "option combination, CRITICAL_PATH_SHOW_ZERO_WEIGHT_LAUNCH_EDGE on/off): every source event unchanged and in order, "
        "critical markers exactly on the path's events, exactly one s/f flow pair per drawn edge on the pid/tid of the joined "
        "events; (3) write_trace / read_trace / update_trace_rank on G-struct traces in both formats; (4) create_rank_to_trace_dict "
        "on file lists (multi-digit, unordered ranks; written by write_trace, json.dump pretty / default / compact; metadata before "
        "or after traceEvents via update_trace_rank on 1..600-event traces). Output files are sniffed for gzip magic. Non-trivial: "
        ">= 2 files written from one object, or >= 3 ranks discovered. Distinct = hash of the case.")
ASSUMPTIONS = ["analysed events carry an args object (Kineto always writes one)", "an event argument literally named rank ahead of the metadata misleads rank discovery: recorded finding K5, reported as KNOWN-FINDING",
               "with only_show_critical_events only markers and flows are judged (events are dropped by design)"]
FLOAT_KEYS = ["files"]          # fractional-time-unit workload class (hv/shard.py)
PLAN = {"quick": {"shards": 16, "cases": 384, "timeout": 900}, "thorough": {"shards": 16, "cases": 3000, "timeout": 3400}}
FLOORS = {"quick": {"distinct_nontrivial": 100, "overlays_checked": 150, "counter_files_checked": 60, "flow_pairs_checked": 2000,
                    "source_events_compared": 12000, "roundtrips": 150, "rank_maps": 50, "second_or_later_file_from_same_object": 80,
                    "overlays_after_path_change": 12, "rank_update_prior_empty": 10, "file_sets_with_a_rankless_file": 15},
          "thorough": {"distinct_nontrivial": 1600, "overlays_checked": 2400, "counter_files_checked": 900, "flow_pairs_checked": 30000,
                       "source_events_compared": 200000, "roundtrips": 2400, "rank_maps": 800, "second_or_later_file_from_same_object": 1200,
                       "overlays_after_path_change": 300, "rank_update_prior_empty": 150}}


def read_any(path: str) -> Dict[str, Any]:
    with open(path, "rb") as fh:
        head = fh.read(2)
    with (gzip.open(path, "rb") if head == b"\x1f\x8b" else open(path, "rb")) as fh:
        return json.loads(fh.read())


def _rank_arg_first(path: str) -> bool:
    """True when the first text of the form "rank": <digits> in the file lies inside the event list, ahead of (or without) the
    distributedInfo block that records the file's rank."""
    import re
    with (gzip.open(path, "rt", encoding="utf-8") if path.endswith(".gz") else open(path, "r", encoding="utf-8")) as fh:
        text = fh.read()
    m = re.search(r'"rank":\s*\d+', text)
    if m is None:
        return False
    ev = text.find('"traceEvents"')
    di = text.find('"distributedInfo"')
    try:
        has_meta_rank = "rank" in (json.loads(text).get("distributedInfo") or {})
    except ValueError:
        return False
    return ev != -1 and ev < m.start() and (not has_meta_rank or m.start() < di)


def _misread_rank(path: str) -> Optional[int]:
    """The number rank discovery reads when it is an event argument ahead of the metadata (else None)."""
    import re
    if not _rank_arg_first(path):
        return None
    with (gzip.open(path, "rt", encoding="utf-8") if path.endswith(".gz") else open(path, "r", encoding="utf-8")) as fh:
        return int(re.search(r'"rank":\s*(\d+)', fh.read()).group(1))


def _k5_explains(wrong_paths, exp_map, paths) -> bool:  # noqa: ANN001
    """Every wrongly mapped file either has its rank read from an event argument, or was displaced from its rank by such a file."""
    misread = {q: _misread_rank(q) for q in paths}
    taken = {v for v in misread.values() if v is not None}
    rank_of = {q: r for r, q in exp_map.items()}
    return bool(wrong_paths) and all(misread.get(q) is not None or rank_of.get(q) in taken for q in wrong_paths)


def read_as_named(path: str, res, tag: str) -> Optional[Dict[str, Any]]:  # noqa: ANN001
    """A written file is read the way its name says, as the library's own readers do (.gz: gzip, otherwise JSON text): its events
    cannot be said to be there if the file cannot be read back."""
    try:
        with (gzip.open(path, "rt", encoding="utf-8") if path.endswith(".gz") else open(path, "r", encoding="utf-8")) as fh:
            out = json.loads(fh.read())
    except (UnicodeDecodeError, OSError, ValueError, EOFError) as e:
        with open(path, "rb") as fh:
            head = fh.read(2)
        res.bad("written-file-reads-as-named", f"{tag}: {os.path.basename(path)} cannot be read the way its name says ({type(e).__name__}); "
                f"first bytes {head!r}")
        return None
    res.counters["written_plain_json" if not path.endswith(".gz") else "written_gz"] += 1
    return out


def gen_case(rnd, tier: str, i: Any) -> Dict[str, Any]:
    if isinstance(i, int) and i % 3 == 2:
        # file round-trips and rank discovery
        n = rnd.randint(2, 6)
        ranks = rnd.sample([0, 1, 2, 3, 7, 10, 11, 17, 100, 255, 1023], n)
        files = []
        for r in ranks:
            fs = gen_struct.gen_fileset(rnd, tier)
            tr = next(iter(fs["files"].values()))
            tr["distributedInfo"] = {"backend": "nccl", "rank": r, "world_size": 2048}
            if rnd.random() < 0.3:
                tr["traceEvents"] = tr["traceEvents"] * rnd.choice([1, 10, 30])       # some files beyond 64 KiB
            how = rnd.choice(["write_trace", "write_trace", "dump_default", "dump_indent", "dump_compact", "update_rank_after", "update_rank_after"])
            if how == "update_rank_after" and rnd.random() < 0.6 and len(tr["traceEvents"]) < 2000:
                tr["traceEvents"] = tr["traceEvents"] * 30                           # metadata lands far behind the events
            if rnd.random() < 0.15:
                # an event argument that happens to be called "rank" (a collective's metadata): it is not the file's rank
                cands = [e for e in tr["traceEvents"][:40] if isinstance(e, dict) and isinstance(e.get("args"), dict)]
                if cands:
                    rnd.choice(cands)["args"]["rank"] = rnd.choice([0, 1, 5, 4093, r + 1])
            files.append({"rank": r, "trace": tr, "gz": rnd.random() < 0.5, "how": how,
                          # what the file said about its rank before update_trace_rank: nothing, an empty object (single-process
                          # trace), other distributed fields only, or another rank
                          "prior_info": rnd.choice(["absent", "absent", "empty", "empty", "no_rank", "other_rank"])})
        if rnd.random() < 0.35:
            # one file that records no rank at all (single-process trace): the documented default is rank 0
            k = rnd.randrange(len(files))
            if all(f["rank"] != 0 for j, f in enumerate(files) if j != k):
                f = files[k]
                f["rank"], f["how"], f["rankless"] = 0, rnd.choice(["write_trace", "dump_default", "dump_indent"]), True
                if rnd.random() < 0.5:
                    f["trace"].pop("distributedInfo", None)
                else:
                    f["trace"]["distributedInfo"] = {"backend": "nccl", "world_size": 2048}
        return {"kind": "files", "files": files, "new_rank": rnd.choice([0, 5, 12, 999])}
    c = cpdrv.gen_case(rnd, tier, i, annotation_nest=rnd.random() < 0.4)
    # rename some files to .json.gz
    if rnd.random() < 0.4:
        c["files"] = {(fn + ".gz"): tr for fn, tr in c["files"].items()}
    c["kind"] = "overlay"
    c["steps"] = [rnd.choice(["overlay", "overlay", "counters"]) for _ in range(rnd.randint(1, 4))]
    if rnd.random() < 0.15:
        # complete events that carry no args object at all (the format allows it; annotations and driver calls have nothing to
        # say): only counter files are written from such a trace - the overlay marks events through their args (see ASSUMPTIONS)
        c["steps"] = ["counters"] * rnd.randint(2, 3)
        for tr in c["files"].values():
            for e in tr["traceEvents"]:
                if e.get("ph") == "X" and e.get("args") == {}:
                    del e["args"]
        c["argless"] = True
    c["opts"] = [{"only": rnd.random() < 0.4, "all_edges": rnd.random() < 0.5, "show_zero": rnd.random() < 0.3,
                  # what-if before the overlay: one critical span edge made free, critical_path() recomputed on the same graph
                  "whatif": rnd.random() < 0.5} for _ in c["steps"]]
    return c


# ------------------------------------------------------------------ overlay / counters
def check_source_preserved(src: List[dict], out_events: List[dict], critical: set, res: core.CaseResult, tag: str) -> bool:
    n = len(src)
    if len(out_events) < n:
        res.bad("source-events-kept", f"{tag}: {len(out_events)} events written, source has {n}")
        return False
    for i in range(n):
        res.counters["source_events_compared"] += 1
        a, b = src[i], out_events[i]
        if a == b:
            if i in critical:
                res.bad("critical-marker", f"{tag}: event {i} is on the critical path but carries no critical marker")
                return False
            continue
        exp = copy.deepcopy(a)
        if i in critical and isinstance(exp.get("args"), dict):
            exp["args"]["critical"] = 1
        if exp != b:
            what = "marked critical although it is not on the critical path" if (isinstance(b.get("args"), dict) and b["args"].get("critical") == 1 and i not in critical) else "altered"
            res.bad("source-event-unchanged", f"{tag}: source event {i} was {what}: source {core.short(a, 200)} written {core.short(b, 200)}", index=i)
            return False
    return True


def check_overlay(A, opt, out_path: str, src_trace, res, tag) -> None:  # noqa: ANN001
    g = A.graph
    out = read_as_named(out_path, res, tag)
    if out is None:
        return
    ev = out["traceEvents"]
    src = src_trace["traceEvents"]
    # the critical path's events, from the path itself (not from the set the overlay reads)
    crit = {int(g.node_list[n].ev_idx) for n in g.critical_path_nodes}
    only = opt["only"]
    all_edges = opt["all_edges"] and not only
    if all_edges:
        drawn = [d["object"] for _, _, d in g.edges(data=True)]
        if not opt["show_zero"]:
            drawn = [e for e in drawn if not (e.type.value == refcp.T_LAUNCH and e.weight == 0)]
    else:
        drawn = list(g.critical_path_edges_set)
    if not only:
        if not check_source_preserved(src, ev, crit, res, tag):
            return
        extra = ev[len(src):]
    else:
        # events are dropped by design; judge markers and flows only
        xs = [e for e in ev if e.get("ph") not in ("s", "f") or e.get("name") != "critical_path"]
        for e in xs:
            if e.get("ph") == "X" and e.get("cat") not in ("user_annotation", "python_function") and not (isinstance(e.get("args"), dict) and e["args"].get("critical") == 1):
                res.bad("only-critical-kept", f"{tag}: non-critical complete event kept: {core.short(e, 160)}")
                return
        marked = [e for e in xs if e.get("ph") == "X" and isinstance(e.get("args"), dict) and e["args"].get("critical") == 1]
        exp_marked = [dict(src[i], args=dict(src[i]["args"], critical=1)) for i in sorted(crit) if isinstance(src[i].get("args"), dict)]
        key = lambda e: json.dumps(e, sort_keys=True, default=str)  # noqa: E731
        if collections.Counter(map(key, marked)) != collections.Counter(map(key, exp_marked)):
            res.bad("critical-marker", f"{tag}: events marked critical ({len(marked)}) are not exactly the critical path's events ({len(exp_marked)})")
            return
        extra = [e for e in ev if e.get("ph") in ("s", "f") and e.get("name") == "critical_path"]
    # flows
    by_id: Dict[Any, List[dict]] = collections.defaultdict(list)
    for e in extra:
        if e.get("ph") not in ("s", "f") or e.get("name") != "critical_path":
            res.bad("only-flows-appended", f"{tag}: appended event is not a critical-path flow event: {core.short(e, 200)}")
            return
        by_id[e.get("id")].append(e)
    nl = g.node_list
    exp_pairs = collections.Counter()
    for e in drawn:
        s_ev, d_ev = src[int(nl[e.begin].ev_idx)], src[int(nl[e.end].ev_idx)]
        exp_pairs[(e.type.value, s_ev["pid"], s_ev["tid"], d_ev["pid"], d_ev["tid"], int(e.weight), e in g.critical_path_edges_set)] += 1
    got_pairs = collections.Counter()
    for fid, pair in by_id.items():
        res.counters["flow_pairs_checked"] += 1
        ss = [x for x in pair if x["ph"] == "s"]
        ff = [x for x in pair if x["ph"] == "f"]
        if len(ss) != 1 or len(ff) != 1:
            res.bad("one-flow-pair-per-edge", f"{tag}: flow id {fid} has {len(ss)} start and {len(ff)} end events")
            return
        s, f = ss[0], ff[0]
        if s.get("cat") != f.get("cat") or s.get("args") != f.get("args"):
            res.bad("flow-pair-consistent", f"{tag}: flow id {fid}: start and end disagree on cat/args")
            return
        got_pairs[(s.get("cat"), s["pid"], s["tid"], f["pid"], f["tid"], (s.get("args") or {}).get("weight"), (s.get("args") or {}).get("critical"))] += 1
    if got_pairs != exp_pairs:
        res.bad("flow-pairs", f"{tag}: flow pairs (type, src pid, src tid, dst pid, dst tid, weight, critical) differ from the drawn edges "
                f"({len(drawn)}): unexpected {list((got_pairs - exp_pairs).items())[:3]}; missing {list((exp_pairs - got_pairs).items())[:3]}")


def run_overlay_case(case, ctx, res) -> None:  # noqa: ANN001
    analysed = list(cpdrv.analyse(case, ctx, res, max_windows=2))  # NB: generator cleans the work dir when exhausted -> materialise lazily below
    return analysed


def run_case(case: Dict[str, Any], ctx: Any) -> core.CaseResult:
    res = core.CaseResult()
    res.key = core.digest(case)
    if case["kind"] == "files":
        _files_case(case, ctx, res)
        return res
    n_written = 0
    gen = cpdrv.analyse(case, ctx, res, max_windows=2, cleanup=False)
    graphs = []
    try:
        for A in gen:
            if A.ok is True:
                graphs.append(A)
            if len(graphs) == 2:
                # keep the generator suspended (its finally removes the work directory) while files are written and read
                break
        if graphs:
            A0 = graphs[0]
            fname = next(fn for fn, tr in case["files"].items() if tr["distributedInfo"]["rank"] == A0.rank)
            src_trace = A0.raw_trace            # the file as written (scaled when the case uses a fractional time unit)
            for k, (step, opt) in enumerate(zip(case["steps"], case["opts"])):
                A = graphs[k % len(graphs)]
                tag = f"step {k} ({step} {opt if step == 'overlay' else ''}) window={A.annotation!r}/{A.instance} rank={A.rank}"
                if step == "overlay":
                    if opt.get("whatif"):
                        g = A.graph
                        path = list(g.critical_path_nodes)
                        cands = [(u, v) for u, v in zip(path, path[1:]) if g.edges[u, v]["weight"] > 0]
                        # keep a positive weight elsewhere: an all-zero graph trips the library's own path assertion (K3)
                        if cands and sum(1 for _, _, dd in g.edges(data=True) if dd["weight"] > 0) >= 2:
                            u, v = core.rng("whatif", case["win_seed"], k).choice(cands)
                            g.edges[u, v]["weight"] = 0
                            okw, r = drv.guard(res, "critical_path (what-if)", g.critical_path)
                            if not okw or r is not True:
                                continue
                            res.counters["overlays_after_what_if"] += 1
                            if list(g.critical_path_nodes) != path:
                                res.counters["overlays_after_path_change"] += 1
                    out_dir = os.path.join(A.workdir, f"overlay_{k}")
                    with core.env(CRITICAL_PATH_SHOW_ZERO_WEIGHT_LAUNCH_EDGE="1" if opt["show_zero"] else None):
                        ok, path = drv.guard(res, "overlay_critical_path_analysis", A.ta.overlay_critical_path_analysis, A.rank, A.graph, out_dir,
                                             opt["only"], opt["all_edges"])
                    if not ok:
                        continue
                    if not path or not os.path.exists(path):
                        res.bad("overlay-written", f"{tag}: no overlay file at {path!r}")
                        continue
                    res.counters["overlays_checked"] += 1
                    check_overlay(A, opt, path, src_trace, res, tag)
                else:
                    ok, _ = drv.guard(res, "generate_trace_with_counters", A.ta.generate_trace_with_counters, None, [A.rank])
                    if not ok:
                        continue
                    outp = os.path.join(A.workdir, fname).replace(".json", "_with_counters.json")
                    if not os.path.exists(outp):
                        res.counters["no_counter_series"] += 1
                        continue
                    res.counters["counter_files_checked"] += 1
                    if case.get("argless"):
                        res.counters["counter_files_from_traces_with_argless_events"] += 1
                    out = read_as_named(outp, res, tag)
                    if out is not None and check_source_preserved(src_trace["traceEvents"], out["traceEvents"], set(), res, tag):
                        bad = [e for e in out["traceEvents"][len(src_trace["traceEvents"]):] if e.get("ph") != "C"]
                        if bad:
                            res.bad("only-counters-appended", f"{tag}: appended event is not a counter event: {core.short(bad[0], 200)}")
                    os.remove(outp)      # keep the trace directory clean for the next step
                n_written += 1
                if n_written >= 2:
                    res.counters["second_or_later_file_from_same_object"] += 1
            res.sample = {"steps": case["steps"], "opts": case["opts"], "files": list(case["files"]), "windows": [[a.annotation, str(a.instance)] for a in graphs]}
    finally:
        gen.close()
        for A in graphs[:1]:
            ctx.scratch.drop(A.workdir)
    res.nontrivial = n_written >= 2
    res.trivial_reason = "fewer than 2 files written from one object"
    return res


# ------------------------------------------------------------------ file round-trips and rank discovery
def _files_case(case, ctx, res) -> None:  # noqa: ANN001
    from hta.common import trace_file as tfile

    d = ctx.scratch.new("c20f")
    try:
        paths, exp_map = [], {}
        if any(f.get("rankless") for f in case["files"]):
            res.counters["file_sets_with_a_rankless_file"] += 1
        for k, f in enumerate(case["files"]):
            tr = copy.deepcopy(f["trace"])
            p = os.path.join(d, f"t{k}_{f['how']}.json" + (".gz" if f["gz"] else ""))
            how = f["how"]
            if how == "write_trace":
                ok, _ = drv.guard(res, "write_trace", tfile.write_trace, tr, p)
            elif how == "update_rank_after":
                prior = f.get("prior_info", "absent")
                tr.pop("distributedInfo", None)
                if prior != "absent":
                    tr["distributedInfo"] = {"empty": {}, "no_rank": {"backend": "nccl", "world_size": 8}, "other_rank": {"backend": "nccl", "rank": 4093}}[prior]
                res.counters[f"rank_update_prior_{prior}"] += 1
                ok, _ = drv.guard(res, "write_trace", tfile.write_trace, tr, p)
                if ok:
                    ok, _ = drv.guard(res, "update_trace_rank", tfile.update_trace_rank, p, f["rank"])
                tr["distributedInfo"] = dict(tr.get("distributedInfo") or {}, rank=f["rank"])
            else:
                kw = {"dump_default": {}, "dump_indent": {"indent": 2}, "dump_compact": {"separators": (",", ":")}}[how]
                txt = json.dumps(tr, **kw)
                with (gzip.open(p, "wt") if f["gz"] else open(p, "w")) as fh:
                    fh.write(txt)
                ok = True
            if not ok:
                continue
            # round trip
            ok, back = drv.guard(res, "read_trace", tfile.read_trace, p)
            if ok:
                res.counters["roundtrips"] += 1
                if back != tr:
                    res.bad("write-read-identity", f"{how} ({'gz' if f['gz'] else 'json'}): read_trace(write) differs from the source "
                            f"(events {len(back.get('traceEvents', []))} vs {len(tr['traceEvents'])})")
                with open(p, "rb") as fh:
                    magic = fh.read(2) == b"\x1f\x8b"
                if magic != f["gz"]:
                    res.bad("file-format", f"{how}: file {os.path.basename(p)} gzip={magic}, extension says {f['gz']}")
            paths.append(p)
            exp_map[f["rank"]] = p
        # update_trace_rank on the first file
        if paths:
            p0 = paths[0]
            before = read_any(p0)
            old_rank = before.get("distributedInfo", {}).get("rank")
            ok, _ = drv.guard(res, "update_trace_rank", tfile.update_trace_rank, p0, case["new_rank"])
            if ok:
                after = read_any(p0)
                exp = copy.deepcopy(before)
                exp.setdefault("distributedInfo", {})["rank"] = case["new_rank"]
                if after != exp:
                    res.bad("update-rank-only", f"update_trace_rank changed more than the rank field (events {len(after.get('traceEvents', []))} vs {len(before['traceEvents'])})")
                if case["new_rank"] not in exp_map or exp_map.get(case["new_rank"]) == p0:
                    exp_map = {r: q for r, q in exp_map.items() if q != p0}
                    exp_map[case["new_rank"]] = p0
                else:
                    # would collide with another file's rank: restore the old rank to keep the map well defined
                    tfile.update_trace_rank(p0, old_rank)
        ok, out = drv.guard(res, "create_rank_to_trace_dict", tfile.create_rank_to_trace_dict, list(paths))
        if ok:
            res.counters["rank_maps"] += 1
            okflag, m = out
            if not okflag or {int(k): v for k, v in m.items()} != exp_map:
                hows = {os.path.basename(q): None for q in paths}
                wrong_paths = [v for k, v in exp_map.items() if m.get(k) != v]
                res.bad("rank-discovery", f"create_rank_to_trace_dict -> ok={okflag} {dict((k, os.path.basename(v)) for k, v in m.items())}, expected "
                        f"{dict((k, os.path.basename(v)) for k, v in exp_map.items())}", files=list(hows),
                        wrong=[os.path.basename(v) for v in wrong_paths],
                        # attribution data for known finding K5: in every wrongly mapped file the first rank text is an event argument
                        wrong_files_have_a_rank_argument_ahead_of_the_metadata=_k5_explains(wrong_paths, exp_map, paths))
        res.nontrivial = len(exp_map) >= 3
        res.trivial_reason = "fewer than 3 ranks"
        res.sample = {"files": [(f["rank"], f["how"], "gz" if f["gz"] else "json", len(f["trace"]["traceEvents"])) for f in case["files"]], "new_rank": case["new_rank"]}
    finally:
        ctx.scratch.drop(d)
