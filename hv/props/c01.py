"""C01 — loaded events are a faithful, uniformly time-shifted image of the trace file."""
from __future__ import annotations

import collections
from fractions import Fraction
from typing import Any, Dict

from hv import core, drv, gen_struct
from hv.mon import contracts
from hv.ref import raw

ID = "C01"
RULE = ("G-struct file sets (1-10 ranks, arbitrary event mixes incl. metadata/flow/instant/counter entries, events without "
        "cat/dur, Trace span with string pid, args None / non-dict, stream as int/str/garbage, shuffled order, .json/.json.gz, "
        "epoch offsets 0..1.7e15, int / dyadic / decimal / int-as-float timestamps, int ts + fractional dur, correlation ids up "
        "to 2^31, >127 and >32767 events) x {parse-only, full load} x {multiprocessing on/off} x include_last_profiler_step x ParserConfig {default, minimum, complete, parse_all_args, selected keys, communication args, reordered}; "
        "oracle = independent recomputation from json.loads of the same files. Non-trivial: >= 2 ranks, or fractional "
        "timestamps, or >= 1 non-complete entry dropped. Distinct = distinct hash of (files, configuration).")
ASSUMPTIONS = [
    "only ParserBackend.JSON is reachable (ijson is not installed in this sandbox)",
    "every file holds >= 1 complete event; args.stream / args.correlation are never floats",
    "IEEE-754: the loader may floor the double sum ts+dur or the exact rational sum",
    "reference model hv/ref/raw.py and Python's json module are trusted",
]
PLAN = {
    "quick": {"shards": 16, "cases": 1280, "timeout": 600},
    "thorough": {"shards": 16, "cases": 16000, "timeout": 3000},
}
FLOORS = {
    "quick": {"distinct_nontrivial": 200, "align_all_ranks.post": 100, "parse_trace_file.post": 150,
              "round_down_time_stamps.post": 150, "rows_compared": 5000, "fractional_files": 50, "multi_rank_loads": 50},
    "thorough": {"distinct_nontrivial": 5000, "align_all_ranks.post": 2500, "parse_trace_file.post": 3000,
                 "round_down_time_stamps.post": 3000, "rows_compared": 100000, "fractional_files": 1000, "multi_rank_loads": 1000},
}


def setup(ctx: Any) -> None:
    contracts.install_c01(ctx)
    contracts.install_c02(ctx)


def gen_case(rnd, tier: str, i: Any) -> Dict[str, Any]:
    big = rnd.random() < (0.04 if tier == "quick" else 0.03)
    case = gen_struct.gen_fileset(rnd, tier, big=big)
    if case["params"].get("odd_labels") and rnd.random() < 0.5:
        # complete events without a name (a missing symbol after loading); only here: the symbol-table properties speak of strings
        import copy
        for fn, tr in case["files"].items():
            for k, e in enumerate(tr["traceEvents"]):
                if k > 0 and isinstance(e, dict) and e.get("ph") == "X" and e.get("dur") is not None and e.get("cat") not in (None, "Trace") and "name" in e \
                        and "ProfilerStep" not in str(e["name"]) and rnd.random() < 0.05:
                    del e["name"]
        case["params"]["nameless"] = True
    case["cfg"] = {
        "mode": rnd.choice(["parse", "load", "load"]),
        "mp": rnd.random() < 0.35,
        "inc_last": rnd.random() < 0.3,
        "no_round": tier == "thorough" and rnd.random() < 0.05,
        "mem_prof": rnd.random() < 0.5,
        "parser": rnd.choice(drv.PARSER_VARIANTS),
        # how the Trace object is told about its files: directory scan, rank -> absolute path, rank -> name relative to
        # trace_dir, or a plain list of paths (ranks inferred from the files' metadata)
        "ctor": rnd.choice(["dir", "dir", "dict_abs", "dict_rel", "list"]),
    }
    if case["params"]["n_ranks"] > 8:
        # the branch that sizes the pool from a sample parse needs multiprocessing (and, by default, memory profiling)
        case["cfg"]["mp"] = rnd.random() < 0.75
        case["cfg"]["mem_prof"] = rnd.random() < 0.75
    return case


def fixed_cases(tier: str):
    from hv import samples
    out = [{"sample_dir": d, "cfg": {"mode": m, "mp": False, "inc_last": False, "no_round": False, "mem_prof": False}}
           for d in samples.dirs(tier) for m in ("load",)]
    if tier == "thorough":
        # the repository's own loading tests with the parse / align / correlation contracts attached
        out += [{"kind": "repo_tests", "file": f} for f in ("test_trace_parse.py", "test_trace_analysis.py", "test_correlation.py", "test_custom_trace_parser.py", "test_trace_file.py")]
    return out


def run_case(case: Dict[str, Any], ctx: Any) -> core.CaseResult:
    res = core.CaseResult()
    if case.get("kind") == "repo_tests":
        from hv.mon import repotests
        res.key = "repo_tests:" + case["file"]
        repotests.run(case["file"], res, ctx)
        return res
    cfg = case["cfg"]
    if "sample_dir" in case:
        from hv import samples
        files_raw, paths, d = samples.load_raw(case["sample_dir"])
        own = False
    else:
        d = ctx.scratch.new("c01")
        own = True
        paths = core.write_trace_files(d, case["files"])
        files_raw = {r: case["files"][fn] for r, fn in zip(paths.keys(), case["files"].keys())}
    try:
        _check(case, cfg, files_raw, paths, d, res, ctx)
    finally:
        if own:
            ctx.scratch.drop(d)
    return res


def _check(case, cfg, files_raw, paths, d, res, ctx) -> None:  # noqa: ANN001
    models = {r: raw.model(tr["traceEvents"], rounding=not cfg["no_round"]) for r, tr in files_raw.items()}
    if any(len(m) == 0 for m in models.values()):
        res.discarded, res.discard_reason = True, "file without complete events"
        return
    n_dropped = sum(len(tr["traceEvents"]) - len(models[r]) for r, tr in files_raw.items())
    frac = {r: raw.ts_column_is_float(tr["traceEvents"]) and any(
        isinstance(e.get("ts"), float) and e["ts"] != int(e["ts"]) or isinstance(e.get("dur"), float) and e["dur"] != int(e["dur"])
        for e in tr["traceEvents"] if isinstance(e, dict)) for r, tr in files_raw.items()}
    res.counters["ranks_total"] += len(models)
    res.counters["fractional_files"] += sum(frac.values())
    res.counters["entries_dropped_expected"] += n_dropped
    res.counters[f"mode_{cfg['mode']}"] += 1
    res.counters[f"parser_{cfg.get('parser', 'default')}"] += 1
    if len(models) > 1 and cfg["mode"] == "load":
        res.counters["multi_rank_loads"] += 1
        if cfg["mp"]:
            res.counters["mp_loads"] += 1
    res.nontrivial = len(models) >= 2 or any(frac.values()) or n_dropped > 0
    res.key = core.digest([case.get("files", case.get("sample_dir")), cfg])
    res.sample = {"ranks": len(models), "events": {r: len(tr["traceEvents"]) for r, tr in files_raw.items()},
                  "complete": {r: len(m) for r, m in models.items()}, "cfg": cfg,
                  "params": case.get("params", case.get("sample_dir")),
                  "first_events": next(iter(files_raw.values()))["traceEvents"][:3]}

    with core.env(HTA_DISABLE_NS_ROUNDING="1" if cfg["no_round"] else None):
        ctor = cfg.get("ctor", "dir")
        import os as _os
        how = paths if "sample_dir" in case else {"dir": None, "dict_abs": dict(paths), "dict_rel": {r: _os.path.basename(q) for r, q in paths.items()},
                                                  "list": sorted(paths.values(), reverse=True)}[ctor]
        res.counters[f"ctor_{ctor}"] += 1
        if ctor == "dict_rel" and "sample_dir" not in case and len(paths) % 2 == 1:
            # the caller keeps ONE rank -> file-name mapping and uses it for two runs that live in two directories (same file
            # names): first a decoy directory, then the real one.  Each Trace reads the files of ITS directory, and the caller's
            # mapping is still what the caller wrote
            decoy = _os.path.join(d, "other_run")
            _os.makedirs(decoy, exist_ok=True)
            core.write_trace_files(decoy, {_os.path.basename(q): {"distributedInfo": {"rank": r}, "traceEvents": [
                {"ph": "X", "cat": "cpu_op", "name": "decoy_op", "pid": 1, "tid": 1, "ts": 5, "dur": 1, "args": {}}]} for r, q in paths.items()})
            before = dict(how)
            okd, _ = drv.guard(res, "Trace(dict_rel, other directory)", drv.new_trace_same_mapping, decoy, how, parser=cfg.get("parser"))
            ok0, t = drv.guard(res, "Trace(dict_rel, same mapping object)", drv.new_trace_same_mapping, d, how, parser=cfg.get("parser"))
            res.counters["mapping_object_used_for_two_directories"] += 1
            if how != before:
                res.bad("caller-mapping-unchanged", f"the rank -> file mapping handed to Trace() was rewritten in place: {core.short(before, 150)} became {core.short(how, 200)}")
        else:
            ok0, t = drv.guard(res, f"Trace({ctor})", drv.new_trace, d, how, parser=cfg.get("parser"))
        if not ok0:
            return
        if cfg["mode"] == "parse":
            ok, _ = drv.guard(res, "parse_traces", t.parse_traces, use_multiprocessing=cfg["mp"], use_memory_profiling=cfg["mem_prof"])
        else:
            ok, _ = drv.guard(res, "load_traces", t.load_traces, include_last_profiler_step=cfg["inc_last"],
                              use_multiprocessing=cfg["mp"], use_memory_profiling=cfg["mem_prof"])
            if ok and core.rng("c01twice", res.key).random() < 0.3:
                # asking a loaded object to load again changes nothing (TraceAnalysis(...) followed by .t.load_traces())
                ok, _ = drv.guard(res, "load_traces (second call)", t.load_traces, include_last_profiler_step=cfg["inc_last"],
                                  use_multiprocessing=cfg["mp"], use_memory_profiling=cfg["mem_prof"])
                res.counters["loads_asked_twice"] += 1
    if not ok:
        return
    if sorted(t.get_ranks()) != sorted(models):
        res.bad("ranks", f"loaded ranks {t.get_ranks()} != files' ranks {sorted(models)}")
        return
    st = t.symbol_table.get_sym_table()
    loaded = cfg["mode"] == "load"
    min_ts = t.min_ts.item() if hasattr(t.min_ts, 'item') else t.min_ts   # plain Python number (numpy scalars wrap)
    exp_min = min(e.ts for m in models.values() for e in m)
    if loaded and min_ts != exp_min:
        res.bad("shift-constant", f"min_ts={min_ts} but earliest complete event of all ranks starts at {exp_min}")
    if not loaded and min_ts != 0:
        res.bad("shift-constant", f"parse-only: min_ts={min_ts}, expected 0")
    n_step_names = len({s for s in st if isinstance(s, str) and "ProfilerStep" in s})
    trimming = loaded and n_step_names >= 2

    for r, m in models.items():
        df = t.get_trace(r)
        exp = {e.id: e for e in m}
        ids = df["index"].tolist()
        if len(set(ids)) != len(ids):
            dup = [k for k, c in collections.Counter(ids).items() if c > 1][:5]
            alld = sorted(k for k, c in collections.Counter(ids).items() if c > 1)
            res.bad("one-row-per-event", f"rank {r}: duplicate event ids {dup}", rank=r, dup_ids=alld, trimming=trimming,
                    dup_events=[{"name": exp[k].name, "corr": exp[k].corr} for k in alld if k in exp])
        extra = sorted(set(ids) - set(exp))[:5]
        if extra:
            res.bad("only-complete-events", f"rank {r}: rows for non-complete entries {extra}: {[files_raw[r]['traceEvents'][i] for i in extra[:2]]}")
        missing = sorted(set(exp) - set(ids))[:5]
        # loading cuts the trailing iteration off a rank that recorded at least two profiler steps (C12 judges what exactly);
        # a rank with fewer keeps every complete event, whatever the other ranks recorded
        trims_this_rank = trimming and len({e.name for e in m if not e.device_side and isinstance(e.name, str) and "ProfilerStep" in e.name}) >= 2
        if trims_this_rank:
            res.counters["ranks_that_may_be_trimmed"] += 1
        elif trimming:
            res.counters["ranks_with_fewer_than_two_steps_in_a_trimming_load"] += 1
        if missing and not trims_this_rank:
            res.bad("every-complete-event", f"rank {r}: complete events missing {missing}: {[exp[i].raw for i in missing[:2]]}")
        if loaded and df.index.tolist() != ids:
            res.bad("indexed-by-id", f"rank {r}: frame index differs from the event-id column")
        cols = ["index", "name", "cat", "pid", "tid", "ts", "dur", "stream", "correlation", "end"]
        miss = [c for c in cols if c not in df.columns]
        if miss:
            res.bad("columns", f"rank {r}: columns missing {miss}")
            continue
        nbad = 0
        for (i, nm, ct, pid, tid, ts, dur, stream, corr, end) in drv.rows(df, cols):
            e = exp.get(i)
            if e is None:
                continue
            res.counters["rows_compared"] += 1
            errs = []
            try:
                if not core.same_symbol(st[nm], e.name):
                    errs.append(f"name {st[nm]!r} != {e.name!r}")
                if st[ct] != e.cat:
                    errs.append(f"cat {st[ct]!r} != {e.cat!r}")
            except (IndexError, TypeError):
                errs.append(f"name/cat id ({nm},{ct}) does not decode")
            if not _same_label(pid, e.pid):
                errs.append(f"pid {pid!r} != {e.pid!r}")
            if not _same_label(tid, e.tid):
                errs.append(f"tid {tid!r} != {e.tid!r}")
            # with rounding disabled the columns are float: the loader computes ts - min_ts once, adding min_ts back need not
            # give the file's double again (9.0 + 6.999 != 15.999), so the loader's own operation is accepted as well
            tdok = (ts + (min_ts if loaded else 0) == e.ts and dur == e.dur) or (cfg["no_round"] and loaded and ts == e.ts - min_ts and dur == e.dur) or (
                e.ts_alt is not None and ts + (min_ts if loaded else 0) == e.ts_alt[0] and dur == e.ts_alt[1])
            if not tdok and not frac[r] and isinstance(e.dur, float):
                # integer ts with fractional dur: either nothing is rounded or the end is floored
                fe = int((Fraction(e.ts) + Fraction(e.dur)) // 1)
                tdok = ts + (min_ts if loaded else 0) == e.ts and dur == fe - e.ts
            if not tdok:
                errs.append(f"(ts,dur)=({ts}+{min_ts if loaded else 0},{dur}) != file image ({e.ts},{e.dur}) raw ts={e.raw.get('ts')!r} dur={e.raw.get('dur')!r}")
            if stream != e.stream:
                errs.append(f"stream {stream!r} != {e.stream!r} (args.stream={e.args.get('stream')!r})")
            if corr != e.corr:
                errs.append(f"correlation {corr!r} != {e.corr!r}")
            if end != ts + dur:
                errs.append(f"end {end} != ts {ts} + dur {dur}")
            if errs:
                nbad += 1
                if nbad <= 2:
                    res.bad("row-content", f"rank {r} event {i}: " + "; ".join(errs), rank=r, id=i, errs=errs)
        # inward rounding: containment / disjointness carried over (loaded values vs original spans)
        if frac[r] and not cfg["no_round"]:
            _pairwise(res, r, df, exp, min_ts if loaded else 0)


def _same_label(got, want) -> bool:  # noqa: ANN001
    """pid / tid as loaded vs. as in the file; a label that the file omits (or gives as null) is a missing value in the frame"""
    if want is None:
        return got is None or (isinstance(got, float) and got != got)
    if isinstance(got, float) and got == got and isinstance(want, int) and not isinstance(want, bool):
        return got == want          # a column with missing labels holds floats
    return got == want and type(got) is type(want) or (isinstance(got, (int, float)) and isinstance(want, (int, float)) and not isinstance(want, bool) and got == want)


def _pairwise(res, r, df, exp, shift) -> None:  # noqa: ANN001
    rows = []
    for (i, ts, dur) in drv.rows(df, ["index", "ts", "dur"]):
        e = exp.get(i)
        if e is None:
            continue
        o_s = Fraction(e.raw["ts"])
        o_e = o_s + Fraction(e.raw["dur"])
        # the loader floors the double sum ts+dur, which may sit 1 ulp above the exact rational sum
        o_e = max(o_e, Fraction(float(e.raw["ts"]) + float(e.raw["dur"])))
        n_s, n_e = ts + shift, ts + shift + dur
        if dur >= 0 and (n_s < o_s or n_e > o_e):
            res.bad("inward-rounding", f"rank {r} event {i}: rounded span [{n_s},{n_e}] extends beyond original [{float(o_s)},{float(o_e)}]")
            return
        if dur >= 0:
            rows.append((o_s, o_e, n_s, n_e, i))
    rows = rows[:160]
    res.counters["pairs_checked"] += len(rows) * (len(rows) - 1) // 2
    for x in range(len(rows)):
        a = rows[x]
        for y in range(len(rows)):
            if x == y:
                continue
            b = rows[y]
            if a[0] <= b[0] and b[1] <= a[1] and not (a[2] <= b[2] and b[3] <= a[3]):
                res.bad("containment-preserved", f"rank {r}: event {a[4]} contains {b[4]} in the file but not after rounding: {a[2:4]} vs {b[2:4]}")
                return
            if a[1] <= b[0] and not (a[3] <= b[2]):
                res.bad("disjointness-preserved", f"rank {r}: event {a[4]} ends before {b[4]} starts in the file but overlaps after rounding")
                return
