"""C19 — a saved critical-path graph restores to an identical graph."""
from __future__ import annotations

import collections
import os
import shutil
from typing import Any, Dict

from hv import core, cpdrv, drv, gen_sim
from hv.ref import cp as refcp
from hv.ref import raw
from hv import wf

ID = "C19"
RULE = ("graphs from C08's workload (G-sim, all window kinds, launch-edge flag on/off, nested node-less annotations) plus a variant in "
        "which one operator ends 1us after its parent (the tolerated rounding artefact: the analysis clamps the -1 weight in the graph "
        "but not in the edge object) and operator names that a CSV round trip would mangle ('<forward>', 'None', 'nan', '', '0012'); k in {1,2,3} save -> restore cycles through CPGraph.save / restore_cpgraph; after every cycle "
        "nodes, edges, weight attributes, edge objects, node_list, event/edge maps, critical path and breakdown are compared with the "
        "original and critical_path() is recomputed on the restored graph. Non-trivial: graph with >= 10 edges and >= 3 edge types. "
        "Distinct = hash of (trace, window, flag, cycles).")
ASSUMPTIONS = ["restore_cpgraph always extracts under /tmp; the extracted directories are removed after each case",
               "breakdown frames are compared up to row order and dtype"]
FLOAT_KEYS = ["files"]          # fractional-time-unit workload class (hv/shard.py)
PLAN = {"quick": {"shards": 16, "cases": 192, "timeout": 900}, "thorough": {"shards": 16, "cases": 2000, "timeout": 3400}}
FLOORS = {"quick": {"distinct_nontrivial": 60, "cycles": 250, "graphs": 120, "clamped_edge_graphs": 8, "breakdowns_compared": 250, "graphs_with_csv_hostile_names": 30, "batch_restores": 60, "graphs_with_two_equal_weight_maximum_paths": 30, "restores_from_a_renamed_archive": 20, "cross_session_restores": 20},
          "thorough": {"distinct_nontrivial": 900, "cycles": 4000, "graphs": 1900, "clamped_edge_graphs": 150, "breakdowns_compared": 4000, "graphs_with_csv_hostile_names": 500, "batch_restores": 900, "graphs_with_two_equal_weight_maximum_paths": 400, "restores_from_a_renamed_archive": 200, "cross_session_restores": 200,
                       "graphs_with_more_than_65536_trace_rows": 1}}


ODD_NAMES = ["<forward>", "<lambda>", "(anonymous)", "None", "null", "nan", "NA", "N/A", "", "1e5", "0012", "True", " padded "]


def gen_case(rnd, tier: str, i: Any) -> Dict[str, Any]:
    over = {}
    if rnd.random() < 0.35:
        # operator names that shorten to the empty string or read like a missing value once written to CSV
        over["ops_pool"] = rnd.sample(gen_sim.OPS, 3) + rnd.sample(ODD_NAMES, 3)
    if rnd.random() < 0.5:
        # small equal durations on several streams: several equal-weight maximum paths (the restored path must still be the saved one)
        over.update(tight=True, n_streams=rnd.choice([2, 3, 4]))
    c = cpdrv.gen_case(rnd, tier, i, annotation_nest=rnd.random() < 0.6, **over)
    c["odd_names"] = bool(over)
    c["cycles"] = rnd.choice([1, 2, 3])
    if rnd.random() < 0.5:
        # child operator ending 1us after its parent on some host thread
        edits = []
        for fn, tr in c["files"].items():
            m = raw.model(tr["traceEvents"])
            for key, th in wf.host_threads(m).items():
                par = wf.tree_parents(th)
                byid = {e.id: e for e in th}
                kids = collections.defaultdict(list)
                for e in th:
                    kids[par[e.id]].append(e)
                cands = [e for e in th if par[e.id] != -1 and e.dur > 0 and e.cat in ("cpu_op", "cuda_runtime") and not kids[e.id]
                         and byid[par[e.id]].cat == "cpu_op" and max(x.end for x in kids[par[e.id]]) == e.end]
                if cands:
                    e = rnd.choice(cands)
                    P = byid[par[e.id]]
                    nxt = [x.ts for x in th if x.ts > P.end]
                    if not nxt or min(nxt) > P.end + 1:
                        edits.append([fn, e.id, P.end + 1 - e.ts])
                    break
        c["post_edits"] = edits
    return c


def fixed_cases(tier: str):
    """One window of more than 65536 clipped trace rows (the saved table is larger than any one write buffer / row-id width)."""
    import random
    if tier != "thorough":
        return []                 # the reference expectation over 88000 events takes minutes
    rnd = random.Random(41)
    n_steps = 190
    p = gen_sim.random_params(rnd, "thorough", rank=0, first_step=5, n_steps=n_steps, ops_per_step=(80, 110), max_depth=3, avoid_k1=True,
                              autograd=False, n_threads=2, base=1000, file_order="time", outer_frame=False)
    tr, truth = gen_sim.gen_trace_with_truth(rnd, **p)
    return [{"files": {"rank0.json": tr}, "truth": {"0": truth}, "rank": 0, "zero_weight": False, "win_seed": 41, "inc_last": False, "time_unit": 1,
             "pre_decode": False, "odd_names": False, "cycles": 1, "force_windows": [("ProfilerStep", (0, n_steps - 2))], "huge": True}]


def _bd_rows(bd):  # noqa: ANN001
    if bd is None:
        return None
    cols = [c for c in ("event_idx", "duration", "type", "s_name", "cat", "pid", "tid", "stream", "bound_by") if c in bd.columns]
    out = collections.Counter()
    for row in zip(*[bd[c].tolist() for c in cols]):
        out[tuple(None if (isinstance(x, float) and x != x) else (float(x) if isinstance(x, (int, float)) and not isinstance(x, bool) else x) for x in row)] += 1
    return out


def _snapshot(g):  # noqa: ANN001
    return {
        "nodes": set(g.nodes), "edges": {(u, v): (d["weight"], d["object"]) for u, v, d in g.edges(data=True)},
        "node_list": list(g.node_list), "e2e": dict(g.edge_to_event_map), "start": dict(g.event_to_start_node_map),
        "end": dict(g.event_to_end_node_map), "path": list(g.critical_path_nodes), "evs": set(g.critical_path_events_set),
        "eset": set(g.critical_path_edges_set),
    }


def _cleanup_extracted(out_dir: str) -> None:
    p = os.path.join("/tmp", out_dir.lstrip("/"))
    shutil.rmtree(p, ignore_errors=True)
    # remove now-empty parents created by the extraction (never /tmp itself)
    q = os.path.dirname(p)
    while q.startswith("/tmp/") and q != "/tmp":
        try:
            os.rmdir(q)
        except OSError:
            break
        q = os.path.dirname(q)


def _make_tie(g, rnd) -> bool:  # noqa: ANN001
    """Re-weight one edge so that a second path into a node of the critical path weighs exactly as much as the path's own."""
    import networkx as nx

    dist = {}
    for n in nx.topological_sort(g):
        dist[n] = max([dist[u] + g.edges[u, n]["weight"] for u in g.pred[n]] or [0])
    path = list(g.critical_path_nodes)
    cands = []
    for p_, v in zip(path, path[1:]):
        for q in g.pred[v]:
            if q != p_:
                w = dist[p_] + g.edges[p_, v]["weight"] - dist[q]
                if w >= 0:
                    cands.append((q, v, w))                 # the other way in becomes as heavy as the path's
                elif q not in path:
                    cands.append((p_, v, g.edges[p_, v]["weight"] - w + g.edges[q, v]["weight"]))   # or the path's edge as heavy as the other way in
    if not cands:
        return False
    q, v, w = rnd.choice(cands)
    g.edges[q, v]["weight"] = w
    return True


def _compare(res, ctag, rg, snap, rows0) -> None:  # noqa: ANN001
    s2 = _snapshot(rg)
    for key, what in (("nodes", "node set"), ("node_list", "node_list"), ("e2e", "edge_to_event_map"), ("start", "event_to_start_node_map"),
                      ("end", "event_to_end_node_map"), ("path", "critical_path_nodes"), ("evs", "critical_path_events_set"),
                      ("eset", "critical_path_edges_set")):
        if s2[key] != snap[key]:
            res.bad(f"restored-{key}", f"{ctag}: {what} differs from the original")
    if set(s2["edges"]) != set(snap["edges"]):
        res.bad("restored-edges", f"{ctag}: edge set differs: missing {sorted(set(snap['edges']) - set(s2['edges']))[:4]} extra {sorted(set(s2['edges']) - set(snap['edges']))[:4]}")
    else:
        diff = [(e, snap["edges"][e], s2["edges"][e]) for e in snap["edges"] if snap["edges"][e] != s2["edges"][e]][:3]
        if diff:
            res.bad("restored-edge-data", f"{ctag}: edge weight attribute / edge object (weight, type) differ (edge, original, restored): {diff}")
    ok, bd1 = drv.guard(res, "get_critical_path_breakdown (restored)", rg.get_critical_path_breakdown)
    if ok:
        res.counters["breakdowns_compared"] += 1
        rows1 = _bd_rows(bd1)
        if rows1 != rows0:
            res.bad("restored-breakdown", f"{ctag}: breakdown differs: only original {list((rows0 - rows1).items())[:2]}; only restored {list((rows1 - rows0).items())[:2]}")


def _cross_session(case, res, A, g, snap, rows0, tag) -> None:  # noqa: ANN001
    """The archive is what outlives the session: a new interpreter (its own string-hash seed, like every new session) loads the
    same trace files the same way and restores the archive there."""
    import json
    import pickle
    import subprocess
    import sys
    out_dir = os.path.join(A.workdir, "kept_for_later")
    ok, zp = drv.guard(res, "CPGraph.save", g.save, out_dir)
    if not ok:
        return
    seed = 1 + core.rng("c19xs", case["win_seed"]).randrange(1000)
    if str(seed) == os.environ.get("PYTHONHASHSEED"):
        seed += 1
    job = os.path.join(A.workdir, "xs_job.txt")
    with open(job, "w") as f:
        json.dump({"dir": A.workdir, "zip": zp, "rank": A.rank, "inc_last": bool(case.get("inc_last")), "pre_decode": bool(case.get("pre_decode"))}, f)
    env = dict(os.environ, PYTHONHASHSEED=str(seed))
    if seed % 2:
        # the new session has its own temporary directory (batch schedulers set TMPDIR per job)
        env["TMPDIR"] = os.path.join(A.workdir, "session_tmp")
        os.makedirs(env["TMPDIR"], exist_ok=True)
        res.counters["cross_session_restores_with_private_tmpdir"] += 1
    try:
        try:
            p = subprocess.run([sys.executable, "-m", "hv.props.c19_child", job], env=env,
                               stdout=subprocess.PIPE, stderr=subprocess.PIPE, text=True, timeout=600)
        except subprocess.TimeoutExpired:
            res.counters["cross_session_timeouts"] += 1        # inconclusive, not a verdict
            return
        if not os.path.exists(job + ".out.pkl"):
            raise RuntimeError(f"cross-session child produced nothing: rc={p.returncode} {p.stderr[-800:]}")
        with open(job + ".out.pkl", "rb") as f:
            out = pickle.load(f)
    finally:
        _cleanup_extracted(out_dir)
    ctag = f"{tag} restored in a new interpreter (PYTHONHASHSEED={seed}) from the same trace files"
    if out["error"]:
        res.bad("cross-session-restore-raised", f"{ctag}: {out['error'][:600]}")
        return
    res.counters["cross_session_restores"] += 1
    s2 = out["snap"]
    for key, what in (("nodes", "node set"), ("node_list", "node_list"), ("e2e", "edge_to_event_map"), ("start", "event_to_start_node_map"),
                      ("end", "event_to_end_node_map"), ("path", "critical_path_nodes"), ("evs", "critical_path_events_set"),
                      ("eset", "critical_path_edges_set"), ("edges", "edges (weight attribute, edge object)")):
        if s2[key] != snap[key]:
            res.bad(f"cross-session-{key}", f"{ctag}: {what} differs from the original")
    if out["rows"] != rows0:
        res.bad("cross-session-breakdown", f"{ctag}: breakdown differs: only original {list((rows0 - out['rows']).items())[:2]}; "
                                           f"only restored {list((out['rows'] - rows0).items())[:2]}")


def run_case(case: Dict[str, Any], ctx: Any) -> core.CaseResult:
    from hta.analyzers.critical_path_analysis import restore_cpgraph

    res = core.CaseResult()
    nontrivial = False
    n = 0
    batch = []
    for A in cpdrv.analyse(case, ctx, res, max_windows=2, cleanup=False):
        g = A.graph
        tag = f"window={A.annotation!r}/{A.instance} rank={A.rank}"
        if A.ok is not True:
            continue
        res.counters["graphs"] += 1
        if len(g.trace_df) > 65536:
            res.counters["graphs_with_more_than_65536_trace_rows"] += 1
        if case.get("odd_names"):
            res.counters["graphs_with_csv_hostile_names"] += 1
        if any(d["weight"] != d["object"].weight for _, _, d in g.edges(data=True)):
            res.counters["clamped_edge_graphs"] += 1
        if core.rng("c19tie", case["win_seed"], A.annotation, str(A.instance)).random() < 0.5:
            # a what-if that makes two ways into a node of the critical path exactly equally heavy: which of them is "the" critical
            # path is decided once, by critical_path(); a restored graph must report that very path
            if _make_tie(g, core.rng("c19tie2", case["win_seed"], A.annotation)):
                okw, r = drv.guard(res, "critical_path (tie what-if)", g.critical_path)
                if not okw or r is not True:
                    continue
                res.counters["graphs_with_two_equal_weight_maximum_paths"] += 1
        ok, bd0 = drv.guard(res, "get_critical_path_breakdown (original)", g.get_critical_path_breakdown)
        if not ok:
            continue
        snap = _snapshot(g)
        batch.append((A, g, snap, _bd_rows(bd0), tag))
        w0 = sum(g.edges[u, v]["weight"] for u, v in zip(snap["path"], snap["path"][1:]))
        rows0 = _bd_rows(bd0)
        cur = g
        for k in range(case["cycles"]):
            n += 1
            out_dir = os.path.join(A.workdir, f"save_{n}")
            ok, zp = drv.guard(res, "CPGraph.save", cur.save, out_dir)
            if not ok:
                break
            try:
                ok, rg = drv.guard(res, "restore_cpgraph", restore_cpgraph, zp, A.ta.t, A.rank)
            finally:
                _cleanup_extracted(out_dir)
            if not ok:
                break
            res.counters["cycles"] += 1
            ctag = f"{tag} after cycle {k + 1}"
            _compare(res, ctag, rg, snap, rows0)
            if k < case["cycles"] - 1:
                cur = rg                      # recomputing may legitimately pick another equal-weight path: only after the last cycle
                continue
            ok, r = drv.guard(res, "critical_path (restored)", rg.critical_path)
            if ok:
                p = list(rg.critical_path_nodes)
                w1 = sum(rg.edges[u, v]["weight"] for u, v in zip(p, p[1:]))
                if r is not True or abs(w1 - w0) > 1e-9:
                    res.bad("recomputed-path-weight", f"{ctag}: critical_path() on the restored graph returned {r!r} with weight {w1}, original {w0}")
            cur = rg
        if len(batch) == 1 and not case.get("huge") and core.rng("c19xs?", case["win_seed"]).random() < 0.3:
            _cross_session(case, res, A, g, snap, rows0, tag)
        types = {d["object"].type for _, _, d in g.edges(data=True)}
        if g.number_of_edges() >= 10 and len(types) >= 3:
            nontrivial = True
        if res.sample is None:
            res.sample = {"window": [A.annotation, str(A.instance)], "cycles": case["cycles"], "nodes": len(g.node_list), "edges": g.number_of_edges(),
                          "path_weight": w0, "clamped": any(d["weight"] != d["object"].weight for _, _, d in g.edges(data=True))}
    # ---- several graphs of one session: saved under one directory name in turn, or under names that differ only after a dot
    # and restored after all of them were saved; nothing is tidied up in between (a user does not clean /tmp either)
    if len(batch) == 2 and not res.violations:
        how = core.rng("c19batch", case["win_seed"]).choice(["same_dir", "dotted", "dotted_version", "renamed", "renamed", "nested", "trailing_sep"])
        names = {"same_dir": ["cp_graph", "cp_graph"], "dotted": ["cp_graph.rank0", "cp_graph.rank1"], "dotted_version": ["run_v1.0", "run_v1.1"],
                 "renamed": ["cp_first", "cp_second"],
                 # the second graph is saved into the directory that already holds the first one's archive and staging directory
                 "nested": ["out/step1", "out"],
                 # a directory name written with its trailing separator (the archive then lies inside it)
                 "trailing_sep": ["cp_a/", "cp_b/"]}[how]
        wd = batch[0][0].workdir
        dirs = [os.path.join(wd, "batch", nm) for nm in names]
        zips, ok = [], True
        if how == "same_dir":
            for (A, g, snap, rows0, tag), od in zip(batch, dirs):
                ok, zp = drv.guard(res, "CPGraph.save", g.save, od)
                if not ok:
                    break
                ok, rg = drv.guard(res, "restore_cpgraph", restore_cpgraph, zp, A.ta.t, A.rank)
                if not ok:
                    break
                _compare(res, f"{tag} saved to the directory an earlier graph was saved to and restored from", rg, snap, rows0)
                res.counters["batch_restores"] += 1
        else:
            for (A, g, snap, rows0, tag), od in zip(batch, dirs):
                ok, zp = drv.guard(res, "CPGraph.save", g.save, od)
                zips.append(zp)
                if not ok:
                    break
            if ok and how == "renamed":
                # the archive is what a user keeps: it is copied elsewhere under another name (the second one takes the name the
                # first one had), the directory it was packed from is gone, and it is restored from where it lies now
                import shutil
                os.makedirs(os.path.join(wd, "kept"), exist_ok=True)
                moved = [os.path.join(wd, "kept", "archive of rank 0.zip"), os.path.join(wd, "kept", os.path.basename(zips[0]))]
                for zp, mv, od in zip(zips, moved, dirs):
                    shutil.move(zp, mv)
                    shutil.rmtree(od, ignore_errors=True)
                zips = moved
                res.counters["restores_from_a_renamed_archive"] += 2
            if ok:
                for (A, g, snap, rows0, tag), zp, od in zip(batch, zips, dirs):
                    ok, rg = drv.guard(res, "restore_cpgraph", restore_cpgraph, zp, A.ta.t, A.rank)
                    if ok:
                        _compare(res, f"{tag} saved as {os.path.basename(od)!r} next to {[os.path.basename(x) for x in dirs]} and restored after both were saved", rg, snap, rows0)
                        res.counters["batch_restores"] += 1
        for od in dirs:
            _cleanup_extracted(od)
    for A, *_ in batch[:1]:
        ctx.scratch.drop(A.workdir)
    res.nontrivial = nontrivial
    res.trivial_reason = "no graph with >= 10 edges and >= 3 edge types"
    res.key = core.digest([case["files"], case["win_seed"], case["zero_weight"], case["cycles"]])
    return res
