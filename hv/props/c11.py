"""C11 — symbol ids are a stable bijection; results ignore id numbering and parse order."""
from __future__ import annotations

import itertools
import json
import os
import subprocess
import sys
import time
from typing import Any, Dict, List

from hv import core, drv, gen_sim, gen_struct
from hv.mon import contracts
from hv.ref import raw

ID = "C11"
RULE = ("(a) random histories of TraceSymbolTable operations (add_symbols with repeats / unicode / empty strings / sets, clone, "
        "combine_symbol_tables, create_from_symbol_id_map, add_symbols_mp), interleaved with every read view of the table (index / table series, get_symbol_names / get_symbol_ids / find_matches) "
        "and with frame codecs (encode_df, decode_df, create_from_df, update_encoded_df, add_symbols_to_trace_df, decode_symbol_id_to_symbol_name; object and pandas string columns) under an icontract class invariant (table and index are "
        "inverse bijections) and snapshot/ensure contracts (old table is a prefix of the new one, every added symbol present), plus "
        "all add-sequences of length <= 4 over a 3-symbol alphabet; (b) multi-rank G-struct loads with different vocabularies and "
        "sizes (local tables below / global table above the int8 boundary), multiprocessing on/off, incremental loading histories "
        "(parse_single_rank in shuffled order, parse_single_rank then parse_multiple_ranks), and worker-delay injection whose "
        "completion orders are logged: every rank's rows must decode to that rank's strings; (c) id-free digests of the loaded "
        "frames and of ten TraceAnalysis getters computed in fresh interpreters for PYTHONHASHSEED in {0,1,2,(3,4,5)} x "
        "multiprocessing on/off must agree. Non-trivial: history with >= 1 repeated symbol, load with >= 2 ranks, digest set with >= 2 "
        "distinct symbol orderings. Distinct = hash of the case.")
ASSUMPTIONS = ["only the JSON parser backend is reachable", "fork start method (the library's own choice) works in the sandbox",
               "digest comparison covers the getters listed in hv/c11_digest.py"]
PLAN = {"quick": {"shards": 16, "cases": 720, "timeout": 900}, "thorough": {"shards": 16, "cases": 6000, "timeout": 3400}}
FLOORS = {"quick": {"distinct_nontrivial": 150, "TraceSymbolTable.invariant": 3000, "add_symbols.post": 1500, "histories": 250, "loads": 80,
                    "rows_decoded": 10000, "delayed_pool_loads": 15, "incremental_histories": 25, "digest_sets": 6, "digest_runs": 36,
                    "distinct_symbol_orderings": 12, "int8_boundary_loads": 10, "pool_loads_with_more_files_than_workers": 5,
                    "incremental_loads_of_subset_vocabularies": 8, "read_only_analyses_on_loaded_table": 300, "view_checks": 400, "codec_checks": 300, "codec_frames_str": 100, "codec_frames_object": 100},
          "thorough": {"distinct_nontrivial": 2000, "TraceSymbolTable.invariant": 40000, "add_symbols.post": 20000, "histories": 3000, "loads": 1000,
                       "rows_decoded": 150000, "delayed_pool_loads": 200, "incremental_histories": 300, "digest_sets": 40, "digest_runs": 400,
                       "distinct_symbol_orderings": 40, "int8_boundary_loads": 100, "pool_loads_with_more_files_than_workers": 40,
                       "incremental_loads_of_subset_vocabularies": 80, "view_checks": 4000, "codec_checks": 3000, "codec_frames_str": 1000, "codec_frames_object": 1000}}
ALPHA = ["aten::mm", "", "ünï::côdé", "cudaLaunchKernel", " lead", "x" * 300, "a", "b", "Kernel", "ProfilerStep#1", "Undefined-1", "0"]


# ------------------------------------------------------------------ contracts
def setup(ctx: Any) -> None:
    import icontract
    import hta.common.trace_symbol_table as tst

    cls = tst.TraceSymbolTable

    def bijection(self) -> bool:
        ctx.monitor["TraceSymbolTable.invariant"] += 1
        t, ix = self.sym_table, self.sym_index
        if len(t) != len(ix) or len(set(t)) != len(t):
            raise drv.ContractBroken("TraceSymbolTable.invariant", f"table has {len(t)} entries ({len(set(t))} distinct), index has {len(ix)}")
        for i, s in enumerate(t):
            if ix.get(s) != i:
                raise drv.ContractBroken("TraceSymbolTable.invariant", f"table[{i}]={s!r} but index[{s!r}]={ix.get(s)!r}")
        return True

    if not getattr(cls, "_hv_invariant", False):
        icontract.invariant(bijection, error=drv.ContractBroken)(cls)
        cls._hv_invariant = True

    def snap_table(self):  # noqa: ANN001
        return list(self.sym_table)

    def post_add(self, symbols, OLD):  # noqa: ANN001,N803
        new = self.sym_table
        if new[: len(OLD.table)] != OLD.table:
            ch = [(i, a, b) for i, (a, b) in enumerate(zip(OLD.table, new)) if a != b][:3]
            return f"ids assigned earlier changed: (id, before, after) {ch}, size {len(OLD.table)} -> {len(new)}"
        return None

    contracts.attach(cls, "add_symbols", "add_symbols", ctx, post=post_add, snaps={"table": snap_table})

    def post_add_mp(self, symbols_list, OLD):  # noqa: ANN001,N803
        new = self.sym_table
        if new[: len(OLD.table)] != OLD.table:
            return "ids assigned earlier changed in add_symbols_mp"
        missing = [s for lst in symbols_list for s in lst if s not in self.sym_index][:3]
        if missing:
            return f"symbols missing after add_symbols_mp: {missing}"
        return None

    contracts.attach(cls, "add_symbols_mp", "add_symbols_mp", ctx, post=post_add_mp, snaps={"table": snap_table})


# ------------------------------------------------------------------ cases
def gen_case(rnd, tier: str, i: Any) -> Dict[str, Any]:
    k = i % 12 if isinstance(i, int) else 0
    if isinstance(i, int) and i % 47 == 11:
        return _gen_digest(rnd, tier)
    if k < 7:
        ops = []
        for _ in range(rnd.randint(1, 14)):
            x = rnd.random()
            syms = [rnd.choice(ALPHA + [f"sym{rnd.randint(0, 30)}"]) for _ in range(rnd.randint(0, 8))]
            if x < 0.55:
                ops.append(["add", syms, rnd.choice(["list", "list", "set", "tuple", "gen"])])
            elif x < 0.65:
                ops.append(["clone"])
            elif x < 0.75:
                ops.append(["combine", syms])
            elif x < 0.85:
                ops.append(["from_map", sorted(set(rnd.sample(range(0, 12), rnd.randint(1, 5))))])
            elif x < 0.9:
                ops.append(["add_mp", [syms, [rnd.choice(ALPHA) for _ in range(3)]]])
            else:
                ops.append(["clone"])
            # the table as its users read it (views) and use it (encode / decode frames), interleaved with the growth
            y = rnd.random()
            if y < 0.25:
                ops.append(["views", rnd.randrange(10 ** 6)])
            elif y < 0.5:
                ops.append(["codec", rnd.randrange(10 ** 6), rnd.choice(["object", "str"])])
        return {"kind": "history", "ops": ops}
    if True:
        big_vocab = rnd.random() < 0.5
        fs = gen_struct.gen_fileset(rnd, tier)
        n_ranks = rnd.choice([2, 3, 3, 4, 5])
        many = isinstance(i, int) and i % 53 == 5
        if many:
            n_ranks = (os.cpu_count() or 16) + 2        # more rank files than pool workers
        files = {}
        for r in range(n_ranks):
            q = dict(fs["params"], n_ranks=n_ranks, base=fs["params"]["base"],
                     n_events=(rnd.choice([4000, 4000, 5, 8, 12]) if (many and r in (0, n_ranks // 2)) else rnd.choice([5, 30, 150 if big_vocab else 60]) if not many else rnd.randint(4, 12)),
                     vocab=rnd.choice([100, 110]) if big_vocab else rnd.choice([1, 4, 12]), steps=0, ts_mode="int")
            files[f"rank{r}.json" + (".gz" if rnd.random() < 0.3 else "")] = gen_struct.gen_rank(rnd, r, q)
        subset_vocab = (not many) and rnd.random() < 0.3
        if subset_vocab:
            # later ranks speak a subset of rank 0's vocabulary (same model, fewer kinds of events): nothing new to add to the
            # global table when they are parsed after rank 0
            import copy
            names = list(files)
            base_tr = files[names[0]]
            for r, fn in enumerate(names[1:], start=1):
                tr2 = copy.deepcopy(base_tr)
                ev = tr2["traceEvents"]
                tr2["traceEvents"] = ev[:1] + [e for e in ev[1:] if rnd.random() < 0.6]
                tr2["distributedInfo"] = dict(tr2.get("distributedInfo") or {}, rank=r)
                files[fn] = tr2
        mode = rnd.choice(["load", "load_mp", "load_mp_delayed", "single_shuffled", "single_then_multi", "multi_then_multi"])
        if subset_vocab and rnd.random() < 0.6:
            mode = rnd.choice(["single_in_order", "single_then_multi"])
        if many:
            mode = rnd.choice(["load_mp", "load_mp_delayed"])
        order = list(range(n_ranks))
        rnd.shuffle(order)
        return {"kind": "load", "files": files, "mode": mode, "order": order, "delays": [rnd.choice([0, 0.02, 0.08, 0.15]) for _ in range(n_ranks)],
                "big_vocab": big_vocab, "subset_vocab": subset_vocab}
    return _gen_digest(rnd, tier)


def _gen_digest(rnd, tier: str) -> Dict[str, Any]:  # noqa: ANN001
    n_ranks = rnd.choice([1, 2, 3])
    files = {}
    first_step = gen_sim.pick_first_step(rnd, 1, 300)
    n_steps = rnd.choice([0, 1, 2, 3])
    for r in range(n_ranks):
        p = gen_sim.random_params(rnd, tier, rank=r, first_step=first_step, n_steps=n_steps, autograd=False)
        files[f"rank{r}.json"] = gen_sim.gen_trace(rnd, **p)
        gen_sim.add_gpu_annotation_pairs(rnd, files[f"rank{r}.json"])          # equal-extent annotation pairs: ties between names
    return {"kind": "digest", "files": files}


def fixed_cases(tier: str):
    out = [{"kind": "enum", "n": n} for n in ((1, 2, 3) if tier == "quick" else (1, 2, 3, 4))]
    if tier == "thorough":
        out.append({"kind": "repo_tests", "file": "test_symbol_table.py"})
    return out


STABLE_SYMBOL_TESTS = ["test_add_symbols_multi_processing", "test_add_symbols_single_process", "test_clone_symbol_table", "test_combine_symbol_tables",
                       "test_create_from_symbol_id_map", "test_get_sym_table_series", "test_get_symbol_ids", "test_get_symbol_names",
                       "test_query_symbols_multi_processes", "test_save_to_load_from_file", "test_symbol_pattern_match"]


def run_repo_tests(case, ctx, res) -> None:  # noqa: ANN001
    from hv.mon import repotests
    repotests.run(case["file"], res, ctx, STABLE_SYMBOL_TESTS)


# ------------------------------------------------------------------ (a) histories
def _model_add(table: List[str], syms) -> None:  # noqa: ANN001
    for s in syms:
        if s not in table:
            table.append(s)


def run_history(case, ctx, res) -> None:  # noqa: ANN001
    from hta.common.trace_symbol_table import TraceSymbolTable

    st = TraceSymbolTable()
    seen_repeat = False
    d = None
    for op in case["ops"]:
        before = list(st.sym_table)
        if op[0] == "add":
            syms = op[1]
            arg = {"list": list, "tuple": tuple, "set": set, "gen": iter}[op[2]](syms)
            ok, _ = drv.guard(res, "add_symbols", st.add_symbols, arg)
            if not ok:
                return
            if any(s in before for s in syms) or len(set(syms)) < len(syms):
                seen_repeat = True
            if op[2] in ("list", "tuple", "gen"):
                exp = list(before)
                _model_add(exp, syms)
                if st.sym_table != exp:
                    res.bad("append-only-order", f"add_symbols({op[2]} {syms}) on {before} gave {st.sym_table}, expected {exp}")
            elif set(st.sym_table) != set(before) | set(syms):
                res.bad("symbols-added", f"add_symbols(set) lost or invented symbols: {sorted(set(st.sym_table) ^ (set(before) | set(syms)))[:4]}")
        elif op[0] == "clone":
            ok, c = drv.guard(res, "clone", TraceSymbolTable.clone, st)
            if ok:
                if c.sym_table != st.sym_table or c.sym_index != st.sym_index:
                    res.bad("clone-equal", "clone differs from the original")
                # a copy is read through the same accessors as the original, before anything is added to it
                _views(c, core.rng("views-of-clone", len(c.sym_table)), res)
                res.counters["views_of_a_fresh_copy"] += 1
                c.add_symbols(["only-in-clone"])
                if "only-in-clone" in st.sym_index:
                    res.bad("clone-independent", "adding to the clone changed the original")
        elif op[0] == "combine":
            other = TraceSymbolTable()
            other.add_symbols(op[1])
            ok, c = drv.guard(res, "combine_symbol_tables", TraceSymbolTable.combine_symbol_tables, [st, other])
            if ok:
                exp = list(st.sym_table)
                _model_add(exp, other.sym_table)
                if c.sym_table != exp:
                    res.bad("combine", f"combine gave {c.sym_table}, expected {exp}")
                st = c
        elif op[0] == "from_map":
            m = {f"m{i}": i for i in op[1]}
            ok, c = drv.guard(res, "create_from_symbol_id_map", TraceSymbolTable.create_from_symbol_id_map, m)
            if ok:
                for s, i in m.items():
                    if i >= len(c.sym_table) or c.sym_table[i] != s or c.sym_index.get(s) != i:
                        res.bad("from-map", f"create_from_symbol_id_map({m}): id {i} does not decode to {s!r}: table {c.sym_table}")
                        break
                if sorted(m.values()) == list(range(len(m))):
                    _views(c, core.rng("views-of-map", len(m)), res)
                    res.counters["views_of_a_fresh_copy"] += 1
                c.add_symbols([])
        elif op[0] == "add_mp":
            ok, _ = drv.guard(res, "add_symbols_mp", st.add_symbols_mp, op[1])
            if ok and st.sym_table[: len(before)] != before:
                res.bad("append-only-order", "add_symbols_mp renumbered earlier symbols")
        elif op[0] == "views":
            _views(st, core.rng("views", op[1]), res)
        elif op[0] == "codec":
            _codec(st, core.rng("codec", op[1]), op[2], res)
        elif op[0] == "roundtrip_csv":
            d = d or ctx.scratch.new("c11h")
            p = os.path.join(d, "sym.csv")
            if any(s == "" for s in st.sym_table):
                continue            # the CSV reader turns an empty string into NaN (documented format limitation), not judged
            ok, _ = drv.guard(res, "_to_csv_file", st._to_csv_file, p)
            if ok:
                ok, c = drv.guard(res, "from_csv_file", TraceSymbolTable.from_csv_file, p)
                if ok and c.sym_table != st.sym_table:
                    res.bad("csv-roundtrip", f"symbol table changed through csv: {st.sym_table[:6]} -> {c.sym_table[:6]}")
        # ids assigned earlier never change
        for i, s in enumerate(before):
            if op[0] in ("add", "add_mp") and (i >= len(st.sym_table) or st.sym_table[i] != s):
                res.bad("id-stable", f"after {op[0]}: id {i} decoded to {s!r} before, now {st.sym_table[i] if i < len(st.sym_table) else None!r}")
                break
    if d:
        ctx.scratch.drop(d)
    res.counters["histories"] += 1
    res.nontrivial = seen_repeat
    res.trivial_reason = "no repeated symbol"
    res.sample = {"history": case["ops"][:4], "final_size": len(st.sym_table)}


def _views(st, rnd, res) -> None:  # noqa: ANN001
    """Every read access describes the same bijection as (sym_table, sym_index) - also right after the table grew."""
    import re
    from hta.common.types import GroupingPattern

    table = list(st.sym_table)
    res.counters["view_checks"] += 1
    ok, ser = drv.guard(res, "get_sym_index_series", st.get_sym_index_series)
    if ok and {k: int(v) for k, v in ser.to_dict().items()} != {x: i for i, x in enumerate(table)}:
        res.bad("table-api:get_sym_index_series", f"index series {dict(list(ser.to_dict().items())[:5])} ({len(ser)} entries) is not the table's index ({len(table)} symbols)")
    ok, ser = drv.guard(res, "get_sym_table_series", st.get_sym_table_series)
    if ok and (ser.tolist() != table or ser.index.tolist() != list(range(len(table)))):
        res.bad("table-api:get_sym_table_series", f"table series has {len(ser)} entries {ser.tolist()[:5]}, the table {len(table)}: {table[:5]}")
    if st.get_sym_id_map() != {x: i for i, x in enumerate(table)} or st.get_sym_index() != st.get_sym_id_map() or st.get_sym_table() != table:
        res.bad("table-api:maps", "get_sym_id_map / get_sym_index / get_sym_table disagree with the table")
    if st.is_empty() != (len(table) == 0):
        res.bad("table-api:is_empty", f"is_empty() = {st.is_empty()} for a table of {len(table)} symbols")
    ids = [rnd.randrange(-2, len(table) + 3) for _ in range(rnd.randint(0, 6))]
    ok, got = drv.guard(res, "get_symbol_names", st.get_symbol_names, ids)
    exp = {i: table[i] for i in set(ids) if 0 <= i < len(table)}
    if ok and {int(k): v for k, v in got.items()} != exp:
        res.bad("table-api:get_symbol_names", f"get_symbol_names({ids}) = {got}, expected {exp}")
    pat = rnd.choice(["aten::", "sym1", ".*Kernel", "^$", "a|b", "sym[0-9]$", ".", "Profiler"])
    inv = rnd.random() < 0.3
    if not table:
        return          # pattern look-ups on a table without any symbol raise (empty Series has no .str accessor): outside the statement, see DESIGN O2
    ok, got = drv.guard(res, "get_symbol_ids", st.get_symbol_ids, GroupingPattern(re.compile(pat), inv))
    exp = {x: i for i, x in enumerate(table) if (re.match(pat, x) is not None) != inv}
    if ok and {k: int(v) for k, v in got.items()} != exp:
        res.bad("table-api:get_symbol_ids", f"get_symbol_ids({pat!r}, inverse={inv}) = {core.short(got, 200)}, expected {core.short(exp, 200)}")
    pats = [rnd.choice(["aten", "sym", "(", ".", "Kernel", "ï", " ", "x" * 5, "1", "zz"]) for _ in range(rnd.randint(1, 3))]
    ok, got = drv.guard(res, "find_matches", st.find_matches, pats)
    exp_i = [i for i, x in enumerate(table) if any(q in x for q in pats)]
    if ok and list(got) != exp_i:
        res.bad("table-api:find_matches", f"find_matches({pats}) = {list(got)[:8]}, the symbols containing one of them have ids {exp_i[:8]}")
    ok, got = drv.guard(res, "find_matched_symbols", st.find_matched_symbols, pats)
    if ok and list(got) != [table[i] for i in exp_i]:
        res.bad("table-api:find_matched_symbols", f"find_matched_symbols({pats}) = {list(got)[:5]}, expected {[table[i] for i in exp_i][:5]}")


def _codec(st, rnd, dtype: str, res) -> None:  # noqa: ANN001
    """encode_df / decode_df / create_from_df / update_encoded_df / add_symbols_to_trace_df / decode_symbol_id_to_symbol_name
    on frames whose name / cat columns hold the table's symbols: decoding yields the strings that were encoded."""
    import pandas as pd
    from hta.common.trace_symbol_table import TraceSymbolTable, decode_symbol_id_to_symbol_name

    table = list(st.sym_table)
    if not table:
        return
    res.counters["codec_checks"] += 1
    n = rnd.randint(1, 12)
    names = [rnd.choice(table) for _ in range(n)]
    cats = [rnd.choice(table) for _ in range(n)]
    df = pd.DataFrame({"name": names, "cat": cats, "ts": list(range(n))})
    if dtype == "object":
        df = df.astype({"name": object, "cat": object})
    res.counters[f"codec_frames_{dtype}"] += 1
    idx = {x: i for i, x in enumerate(table)}
    enc = df.copy()
    ok, _ = drv.guard(res, f"encode_df[{dtype}]", st.encode_df, enc)
    if not ok:
        return
    if enc["name"].tolist() != [idx[x] for x in names] or enc["cat"].tolist() != [idx[x] for x in cats]:
        res.bad("table-api:encode_df", f"encode_df[{dtype} columns]: names {names[:4]} encoded as {enc['name'].tolist()[:4]}, ids are {[idx[x] for x in names][:4]}")
        return
    dec = enc.copy()
    ok, _ = drv.guard(res, "decode_df", st.decode_df, dec, True)
    if ok and (dec.get("s_name", pd.Series(dtype=object)).tolist() != names or dec.get("s_cat", pd.Series(dtype=object)).tolist() != cats or dec["name"].tolist() != enc["name"].tolist()):
        res.bad("table-api:decode_df", f"decode_df(create_new_columns=True) of the encoded frame gives {dec.get('s_name', pd.Series(dtype=object)).tolist()[:4]}, encoded were {names[:4]}")
    dec2 = enc.copy()
    ok, _ = drv.guard(res, "decode_df", st.decode_df, dec2, False)
    if ok and (dec2["name"].tolist() != names or dec2["cat"].tolist() != cats):
        res.bad("table-api:decode_df", f"decode_df(create_new_columns=False) gives {dec2['name'].tolist()[:4]}, encoded were {names[:4]}")
    d3 = enc.copy()
    ok, _ = drv.guard(res, "decode_symbol_id_to_symbol_name", decode_symbol_id_to_symbol_name, d3, st, False)
    if ok and (d3["s_name"].tolist() != names or d3["s_cat"].tolist() != cats):
        res.bad("table-api:decode_symbol_id_to_symbol_name", f"s_name {d3['s_name'].tolist()[:4]} != encoded names {names[:4]}")
    d4 = enc.copy()
    d4.loc[len(d4)] = {"name": len(table) + 5, "cat": 0, "ts": -1}
    ok, _ = drv.guard(res, "add_symbols_to_trace_df", st.add_symbols_to_trace_df, d4, "name")
    if ok and d4["name"].tolist() != names + [""]:
        res.bad("table-api:add_symbols_to_trace_df", f"expanded names {d4['name'].tolist()[:5]} != {(names + [''])[:5]}")
    # a table made from the frame itself holds exactly the frame's symbols and encodes / decodes them
    ok, t2 = drv.guard(res, f"create_from_df[{dtype}]", TraceSymbolTable.create_from_df, df.copy())
    if ok:
        if sorted(t2.sym_table) != sorted(set(names) | set(cats)):
            res.bad("table-api:create_from_df", f"create_from_df holds {sorted(t2.sym_table)[:6]}, the frame's symbols are {sorted(set(names) | set(cats))[:6]}")
        else:
            e2 = df.copy()
            t2.encode_df(e2)
            # re-target the frame from the small table to the big one: ids change, strings must not
            ok, _ = drv.guard(res, "update_encoded_df", st.update_encoded_df, e2, t2)
            if ok and (e2["name"].tolist() != [idx[x] for x in names] or e2["cat"].tolist() != [idx[x] for x in cats]):
                res.bad("table-api:update_encoded_df", f"after update_encoded_df the ids decode to {[table[i] if 0 <= i < len(table) else None for i in e2['name'].tolist()][:4]}, encoded were {names[:4]}")


def run_enum(case, ctx, res) -> None:  # noqa: ANN001
    from hta.common.trace_symbol_table import TraceSymbolTable

    n = 0
    for seq in itertools.product(["a", "b", "c"], repeat=case["n"]):
        for split in range(case["n"] + 1):
            st = TraceSymbolTable()
            st.add_symbols(list(seq[:split]))
            first = list(st.sym_table)
            st.add_symbols(list(seq[split:]))
            exp: List[str] = []
            _model_add(exp, seq)
            n += 1
            if st.sym_table != exp or st.sym_table[: len(first)] != first:
                res.bad("enum-add-sequences", f"add sequence {seq} split at {split}: table {st.sym_table}, expected {exp}")
    res.counters["enumerated_add_sequences"] += n
    res.nontrivial = True
    res.sample = {"enumeration": f"all add-sequences of length {case['n']} over {{a,b,c}} with every split point", "count": n}
    ctx.notes.setdefault("exhaustive_subspace", []).append(f"add-sequences of length {case['n']} over 3 symbols x split points: {n}")


# ------------------------------------------------------------------ (b) loads
def run_load(case, ctx, res) -> None:  # noqa: ANN001
    import hta.common.trace as tr

    d = ctx.scratch.new("c11l")
    log = os.path.join(d, "..", f"done_{os.path.basename(d)}.log")
    orig = tr.parse_trace_file
    try:
        paths = core.write_trace_files(d, case["files"])
        models = {r: raw.model(t["traceEvents"]) for r, t in ((t["distributedInfo"]["rank"], t) for t in case["files"].values())}
        if any(not m for m in models.values()):
            res.discarded, res.discard_reason = True, "file without complete events"
            return
        mode = case["mode"]
        t = drv.new_trace(d)
        if mode == "load_mp_delayed":
            delays = {paths[r]: case["delays"][k % len(case["delays"])] for k, r in enumerate(sorted(paths))}

            def delayed(path, cfg=None):  # noqa: ANN001
                out = orig(path, cfg)
                time.sleep(delays.get(path, 0))
                fd = os.open(log, os.O_WRONLY | os.O_APPEND | os.O_CREAT)
                os.write(fd, (os.path.basename(path) + "\n").encode())
                os.close(fd)
                return out

            tr.parse_trace_file = delayed
        if mode in ("load", "load_mp", "load_mp_delayed"):
            ok, _ = drv.guard(res, "load_traces", t.load_traces, use_multiprocessing=mode != "load")
        elif mode in ("single_shuffled", "single_in_order"):
            ok = True
            if case.get("subset_vocab"):
                res.counters["incremental_loads_of_subset_vocabularies"] += 1
            for r in (case["order"] if mode == "single_shuffled" else sorted(case["order"])):
                ok, _ = drv.guard(res, "parse_single_rank", t.parse_single_rank, r)
                if not ok:
                    break
        else:
            order = case["order"]
            cut = max(1, len(order) // 2)
            if mode == "single_then_multi":
                if case.get("subset_vocab"):
                    order = sorted(order)
                    res.counters["incremental_loads_of_subset_vocabularies"] += 1
                ok, _ = drv.guard(res, "parse_single_rank", t.parse_single_rank, order[0])
                rest = sorted(order[1:])
            else:
                ok, _ = drv.guard(res, "parse_multiple_ranks", t.parse_multiple_ranks, sorted(order[:cut]), False)
                rest = sorted(order[cut:])
            if ok and rest:
                ok, _ = drv.guard(res, "parse_multiple_ranks", t.parse_multiple_ranks, rest, len(rest) > 1 and case["delays"][0] > 0)
            res.counters["incremental_histories"] += 1
        if not ok:
            return
        if mode == "load_mp_delayed":
            res.counters["delayed_pool_loads"] += 1
            try:
                with open(log) as fh:
                    order = [x.strip() for x in fh if x.strip()]
                ctx.notes.setdefault("completion_orders_seen", [])
                key = ">".join(order)
                if key not in ctx.notes["completion_orders_seen"] and len(ctx.notes["completion_orders_seen"]) < 30:
                    ctx.notes["completion_orders_seen"].append(key)
                if order != sorted(order):
                    res.counters["out_of_rank_order_completions"] += 1
            except OSError:
                pass
        st = t.symbol_table.get_sym_table()
        if len(st) >= 128 and any(len({e.name for e in m} | {e.cat for e in m}) < 128 for m in models.values()):
            res.counters["int8_boundary_loads"] += 1
        res.counters["loads"] += 1
        if len(models) > (os.cpu_count() or 16) and mode != "load":
            res.counters["pool_loads_with_more_files_than_workers"] += 1
        for r, m in models.items():
            if r not in t.traces:
                res.bad("rank-loaded", f"rank {r} missing after {mode}")
                continue
            df = t.get_trace(r)
            exp = {e.id: e for e in m}
            nb = 0
            for i, nm, ct in drv.rows(df, ["index", "name", "cat"]):
                e = exp.get(i)
                if e is None:
                    continue
                res.counters["rows_decoded"] += 1
                got_n = st[nm] if 0 <= nm < len(st) else f"<id {nm} out of range>"
                got_c = st[ct] if 0 <= ct < len(st) else f"<id {ct} out of range>"
                if not core.same_symbol(got_n, e.name) or got_c != e.cat:
                    nb += 1
                    if nb <= 2:
                        res.bad("rank-decodes-to-own-strings", f"{mode} order {case['order']}: rank {r} event {i} decodes to ({got_n!r}, {got_c!r}), file says "
                                f"({e.name!r}, {e.cat!r}); table size {len(st)}, name dtype {df['name'].dtype}", mode=mode)
        ix = t.symbol_table.get_sym_id_map()
        if len(ix) != len(st) or any(ix.get(s) != i for i, s in enumerate(st)):
            res.bad("global-table-bijection", "global symbol table and index are not inverse of each other after loading")
        elif t.is_parsed:
            # read-only analyses must leave the table as it is (they read it through get_sym_id_map(), the live index)
            from hta.trace_analysis import TraceAnalysis
            ta = TraceAnalysis.__new__(TraceAnalysis)
            ta.t = t
            before_table, before_index = list(st), dict(ix)
            ranks_ = t.get_ranks()
            for nm, call in (("get_gpu_kernels_with_user_annotations", lambda: [ta.get_gpu_kernels_with_user_annotations(r_) for r_ in ranks_]),
                             ("get_gpu_user_annotation_breakdown", lambda: ta.get_gpu_user_annotation_breakdown(visualize=False)),
                             ("get_temporal_breakdown", lambda: ta.get_temporal_breakdown(visualize=False)),
                             ("get_idle_time_breakdown", lambda: ta.get_idle_time_breakdown(ranks=ranks_, visualize=False)),
                             ("get_cuda_kernel_launch_stats", lambda: ta.get_cuda_kernel_launch_stats(ranks=ranks_, visualize=False)),
                             ("get_queue_length_time_series", lambda: ta.get_queue_length_time_series(ranks_))):
                try:
                    call()
                except drv.ContractBroken as e:
                    res.bad("table-unchanged-by-analyses", f"{nm}: {e}")
                    break
                except Exception:  # noqa: BLE001  (their results belong to other properties; arbitrary G-struct traces may be outside their regime)
                    pass
                res.counters["read_only_analyses_on_loaded_table"] += 1
                now_table, now_index = t.symbol_table.sym_table, t.symbol_table.sym_index          # attributes: no contract in the way
                if list(now_table) != before_table or dict(now_index) != before_index:
                    added = {k: v for k, v in now_index.items() if before_index.get(k) != v}
                    res.bad("table-unchanged-by-analyses", f"{nm} changed the symbol table: index entries added / changed {core.short(added, 200)}; "
                            f"table {len(before_table)} -> {len(now_table)} symbols, index {len(before_index)} -> {len(now_index)}")
                    break
        res.nontrivial = len(models) >= 2
        res.sample = {"mode": mode, "order": case["order"], "ranks": len(models), "global_symbols": len(st), "big_vocab": case["big_vocab"]}
    finally:
        tr.parse_trace_file = orig
        try:
            os.remove(log)
        except OSError:
            pass
        ctx.scratch.drop(d)


# ------------------------------------------------------------------ (c) digests across hash seeds / multiprocessing
def run_digest(case, ctx, res) -> None:  # noqa: ANN001
    d = ctx.scratch.new("c11d")
    try:
        core.write_trace_files(d, case["files"])
        seeds = [0, 1, 2] if ctx.tier == "quick" else [0, 1, 2, 3, 4, 5]
        outs = {}
        for hs in seeds:
            for mp in (0, 1):
                env = dict(os.environ, PYTHONHASHSEED=str(hs))
                p = subprocess.run([sys.executable, "-m", "hv.c11_digest", d, str(mp)], env=env, stdout=subprocess.PIPE, stderr=subprocess.PIPE, text=True, timeout=300)
                line = next((l for l in p.stdout.splitlines() if l.startswith("DIGEST ")), None)
                res.counters["digest_runs"] += 1
                if line is None:
                    res.bad("digest-run", f"hash seed {hs} mp={mp}: analysis process failed: {p.stderr[-400:]}")
                    continue
                outs[(hs, mp)] = json.loads(line[7:])
        if len(outs) < 2:
            return
        orders = {o["symbol_order"] for o in outs.values()}
        res.counters["distinct_symbol_orderings"] += len(orders)
        res.counters["digest_sets"] += 1
        ref_key = sorted(outs)[0]
        ref = outs[ref_key]
        for k, o in outs.items():
            for name in ref:
                if name in ("symbol_order",):
                    continue
                if o.get(name) != ref[name]:
                    res.bad("result-independent-of-numbering", f"{name}: digest {o.get(name)} under (hash seed, mp)={k} but {ref[name]} under {ref_key} "
                            f"(symbol orderings {o['symbol_order']} vs {ref['symbol_order']})", getter=name)
                    break
        res.nontrivial = len(orders) >= 2
        res.trivial_reason = "only one symbol ordering observed"
        res.sample = {"runs": len(outs), "distinct_symbol_orderings": len(orders), "digests": {k: v for k, v in list(ref.items())[:6]}}
    finally:
        ctx.scratch.drop(d)


def run_case(case: Dict[str, Any], ctx: Any) -> core.CaseResult:
    res = core.CaseResult()
    res.key = core.digest(case)
    {"history": run_history, "enum": run_enum, "load": run_load, "digest": run_digest, "repo_tests": run_repo_tests}[case["kind"]](case, ctx, res)
    return res
