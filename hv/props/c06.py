"""C06 — idle-time breakdown: gaps between stream-consecutive kernels, classified by rule."""
from __future__ import annotations

import collections
from typing import Any, Dict

from hv import core, drv, gen_sim, wf
from hv.ref import load as refload
from hv.ref import raw

ID = "C06"
RULE = ("G-sim traces (1-4 streams, touching kernels, zero-duration kernels, dropped launches = kernels without launch call, "
        "launch calls starting exactly when the previous kernel ends, 1-3 ranks) loaded through TraceAnalysis; "
        "get_idle_time_breakdown for rank subsets, stream subsets and thresholds drawn from {0, 1, an actual gap, gap+1, 30, 1e9} "
        "so that gap == threshold and launch start == previous end occur, with and without show_idle_interval_stats (count / min / max / mean / median of the individual gaps per category); oracle = per-stream gaps between consecutive kernels of "
        "the documented categories, classified host_wait / kernel_wait / other, summed per category; totals = span - busy; ratios. "
        "Non-trivial: a stream with >= 3 kernels and >= 2 categories with positive idle time. Distinct = hash of files + cfg.")
ASSUMPTIONS = ["well-formed regime; kernels of one stream do not overlap (G-sim) and have distinct starts", ">= 1 kernel on the rank after trimming",
               "kernel categories as documented: kernel, gpu_memset, gpu_memcpy"]
FLOAT_KEYS = ["files"]          # fractional-time-unit workload class (hv/shard.py)
PLAN = {"quick": {"shards": 16, "cases": 800, "timeout": 600}, "thorough": {"shards": 16, "cases": 8000, "timeout": 3000}}
FLOORS = {"quick": {"distinct_nontrivial": 100, "streams_judged": 700, "gaps_host_wait": 500, "gaps_kernel_wait": 300, "gaps_other": 300,
                    "gap_equals_threshold": 30, "launch_start_equals_prev_end": 20, "unlinked_kernels": 50, "stats_rows_judged": 500,
                    "second_or_later_request_on_same_object": 200},
          "thorough": {"distinct_nontrivial": 2000, "streams_judged": 14000, "gaps_host_wait": 10000, "gaps_kernel_wait": 6000, "gaps_other": 6000,
                       "gap_equals_threshold": 600, "launch_start_equals_prev_end": 400, "unlinked_kernels": 1000, "stats_rows_judged": 8000}}
CATS = {"kernel", "Kernel", "gpu_memset", "Memset", "gpu_memcpy", "Memcpy", "mtia_ccp_events"}


def _streams(kept):  # noqa: ANN001
    by = collections.defaultdict(list)
    for e in kept:
        if e.stream != -1 and e.cat in CATS:
            by[e.stream].append(e)
    for s in by:
        by[s].sort(key=lambda e: (e.ts, e.end, e.id))
    return by


def _check_stats(res, stats, r, s, gaps_by) -> None:  # noqa: ANN001
    """The optional statistics frame describes the individual idle intervals of each category (count, min, max, mean,
    median): a finer observable of 'the idle intervals are exactly the gaps' than the per-category sums."""
    sub = stats[(stats["rank"] == r) & (stats["stream"] == s)]
    res.counters["stats_streams_judged"] += 1
    for c, row in zip(sub.index.tolist(), sub.to_dict("records")):
        g = sorted(gaps_by.get(c, []))
        res.counters["stats_rows_judged"] += 1
        if int(row["count"]) != len(g):
            res.bad("interval-stats", f"rank {r} stream {s} {c}: {int(row['count'])} idle intervals reported, the stream has {len(g)} gaps of that category",
                    rank=r, stream=s)
            continue
        if not g:
            continue
        med = (g[(len(g) - 1) // 2] + g[len(g) // 2]) / 2
        exp = {"min": g[0], "max": g[-1], "mean": sum(g) / len(g), "50%": med}
        wrong = {k: (float(row[k]), v) for k, v in exp.items() if abs(float(row[k]) - v) > 0.005 + 1e-9}
        if wrong:
            res.bad("interval-stats", f"rank {r} stream {s} {c}: interval statistics (reported, expected) {wrong}; gaps {g[:12]}", rank=r, stream=s)
    missing = [c for c in gaps_by if gaps_by[c] and c not in sub.index.tolist()]
    if missing:
        res.bad("interval-stats", f"rank {r} stream {s}: no statistics row for categories {missing}")


def gen_case(rnd, tier: str, i: Any) -> Dict[str, Any]:
    n_ranks = rnd.choice([1, 1, 2, 3])
    first_step = gen_sim.pick_first_step(rnd)
    n_steps = rnd.choice([0, 1, 2, 3])
    files = {}
    zero_tie = False
    for r in range(n_ranks):
        p = gen_sim.random_params(rnd, tier, rank=r, first_step=first_step, n_steps=n_steps, p_sync=rnd.choice([0.0, 0.1]), exotic_launch=rnd.random() < 0.3,
                                  ops_per_step=rnd.choice([(2, 5), (3, 8), (6, 12)]))
        tr = gen_sim.gen_trace(rnd, **p)
        gen_sim.drop_events(rnd, tr, p_launch=rnd.choice([0, 0, 0.15]), p_kernel=rnd.choice([0, 0, 0.1]))
        if rnd.random() < 0.25:
            # a stream id whose records carry two device pids (one process driving two devices, exported under one stream id):
            # the breakdown is per stream id
            for e in tr["traceEvents"]:
                if e.get("ph") == "X" and e.get("cat") in ("kernel", "gpu_memcpy", "gpu_memset") and rnd.random() < 0.4:
                    e["pid"] = 1
                    e["args"]["device"] = 1
        if rnd.random() < 0.25:
            # a zero-duration kernel starting in the very instant the next kernel of its stream starts (no overlap), written after or
            # before it in the file: the gaps are those between consecutive kernels, whatever the file order
            ks = [e for e in tr["traceEvents"] if e.get("ph") == "X" and e.get("cat") == "kernel" and e.get("dur", 0) > 0]
            if ks:
                K = rnd.choice(ks)
                Z = {"ph": "X", "cat": "kernel", "name": "zero_len_kernel", "pid": K["pid"], "tid": K["tid"], "ts": K["ts"], "dur": 0,
                     "args": {"stream": K["args"]["stream"], "device": K["args"].get("device", 0)}}
                pos = tr["traceEvents"].index(K) + rnd.choice([0, 1, 1])
                tr["traceEvents"].insert(max(1, pos), Z)
                zero_tie = True
        if rnd.random() < 0.3:
            gen_sim.add_device_spans(rnd, tr)        # GPU-side annotations / profiler ranges on the kernels' streams
        if n_ranks > 1 and r > 0 and rnd.random() < 0.12:
            # a rank without any device activity (CPU-only worker, or the device records were not collected): it has no stream, hence
            # no rows - and the other ranks of the request are reported as usual
            ev = tr["traceEvents"]
            tr["traceEvents"] = ev[:1] + [e for e in ev[1:] if not (e.get("ph") == "X" and e.get("cat") in ("kernel", "gpu_memcpy", "gpu_memset", "cuda_sync", "gpu_user_annotation", "cuda_profiler_range"))]
        files[f"rank{r}.json"] = tr
    if n_ranks > 1 and rnd.random() < 0.3:
        # every later rank repeats rank 0's vocabulary in another order of first appearance
        for r in range(1, n_ranks):
            files[f"rank{r}.json"] = gen_sim.clone_reordered(rnd, files["rank0.json"], r)
    # thresholds are completed in run_case from the actual gaps (they depend on the loaded view)
    return {"files": files, "zero_tie": zero_tie, "cfg": {"rank_sel": rnd.random(), "stream_sel": rnd.random(), "thr_sel": rnd.random(), "thr_mode": rnd.choice(["gap", "gap", "gap+1", "0", "1", "30", "1e9"]),
                                    "stats": rnd.random() < 0.5},
            "more_cfgs": [{"rank_sel": rnd.random(), "stream_sel": rnd.random(), "thr_sel": rnd.random(), "thr_mode": rnd.choice(["gap", "gap+1", "0", "30", "1e9"]),
                           "stats": rnd.random() < 0.5} for _ in range(rnd.choice([0, 0, 1, 2]))]}


def run_case(case: Dict[str, Any], ctx: Any) -> core.CaseResult:
    res = core.CaseResult()
    cfg = case["cfg"]
    models = {}
    for fn, tr in case["files"].items():
        m = raw.model(tr["traceEvents"])
        why = wf.well_formed(m, tr["traceEvents"]) or wf.causal(m, zero_len_shared_start_ok=True)
        if why:
            res.discarded, res.discard_reason = True, "out of regime: " + why.split(":")[0][:50]
            return res
        models[tr["distributedInfo"]["rank"]] = m
    ld = refload.loaded(models, False)
    ranks_ok = [r for r in sorted(models) if _streams(ld.kept[r])]
    if not ranks_ok:
        res.discarded, res.discard_reason = True, "no kernel left on any rank"
        return res
    d = ctx.scratch.new("c06")
    try:
        core.write_trace_files(d, case["files"])
        ok, ta = drv.guard(res, "TraceAnalysis(load)", drv.new_analysis, d)
        if not ok:
            return res
        # one or several requests on the same object (other ranks / streams / threshold / statistics flag)
        for k, cfg_k in enumerate([cfg] + list(case.get("more_cfgs", []))):
            if k >= 1:
                res.counters["second_or_later_request_on_same_object"] += 1
            if not _one_request(case, cfg_k, ta, ld, models, ranks_ok, res):
                break
    finally:
        ctx.scratch.drop(d)
    return res


def _one_request(case, cfg, ta, ld, models, ranks_ok, res) -> bool:  # noqa: ANN001
    n = max(1, int(cfg["rank_sel"] * len(ranks_ok) + 0.999))
    ranks = ranks_ok[:n] if cfg["rank_sel"] < 0.7 else [ranks_ok[int(cfg["rank_sel"] * 1000) % len(ranks_ok)]]
    idle_ranks = [r for r in sorted(models) if r not in ranks_ok]
    asked = list(ranks)
    if idle_ranks and cfg["stream_sel"] >= 0.6:
        # ranks without any kernel are named in the request as well (all ranks of the job): no rows for them
        asked = sorted(ranks + idle_ranks)
        res.counters["requests_naming_a_rank_without_kernels"] += 1
    # threshold from the actual gaps of the first selected rank
    gaps = []
    for s, ks in _streams(ld.kept[ranks[0]]).items():
        gaps += [b.ts - a.end for a, b in zip(ks, ks[1:])]
    gaps = [g for g in gaps if g >= 0] or [0]
    g0 = sorted(gaps)[int(cfg["thr_sel"] * len(gaps)) % len(gaps)]
    thr = {"gap": g0, "gap+1": g0 + 1, "0": 0, "1": 1, "30": 30, "1e9": 10 ** 9}[cfg["thr_mode"]]
    all_streams = sorted({s for r in ranks for s in _streams(ld.kept[r])})
    common = sorted(set.intersection(*[set(_streams(ld.kept[r])) for r in ranks]))
    streams = None
    if cfg["stream_sel"] < 0.4 and common:
        k = max(1, int(cfg["stream_sel"] * 2.5 * len(common)))
        streams = common[:k]
    elif 0.4 <= cfg["stream_sel"] < 0.6 and all_streams:
        # streams named explicitly that not every requested rank uses (and, sometimes, one that nobody uses, listed first): a
        # rank without kernels on a stream has no rows for it, and its other streams are reported as usual
        streams = ([999] if int(cfg["stream_sel"] * 1000) % 3 == 0 else []) + all_streams
        if any(s not in _streams(ld.kept[r]) for r in ranks for s in streams):
            res.counters["requests_naming_a_stream_some_rank_lacks"] += 1
    streams_given = None if streams is None else list(streams)       # what the caller wrote; the call gets the caller's own list object
    asked_given = list(asked)
    ok, out = drv.guard(res, "get_idle_time_breakdown", ta.get_idle_time_breakdown, ranks=asked, streams=streams, visualize=False,
                        consecutive_kernel_delay=thr, **({"show_idle_interval_stats": True} if cfg.get("stats") else {}))
    if not ok:
        res.violations[-1].witness.update(ranks=ranks, streams=streams, thr=thr)
        return False
    if streams != streams_given or asked != asked_given:
        res.bad("arguments-left-alone", f"the call rewrote its arguments: streams {streams_given} -> {streams}, ranks {asked_given} -> {asked}")
    streams = streams_given
    df = out[0]
    if str(df["idle_time"].dtype) == "object" or str(df["idle_time_ratio"].dtype) == "object":
        res.bad("numeric-columns", f"idle_time / idle_time_ratio columns are of dtype {df['idle_time'].dtype} / {df['idle_time_ratio'].dtype} (ranks asked {asked})")
    stats = out[1] if cfg.get("stats") else None
    if cfg.get("stats") and stats is None:
        res.bad("interval-stats", "show_idle_interval_stats=True returned no statistics frame")
    nontrivial = False
    for r in ranks:
        kept = ld.kept[r]
        byid = {e.id: e for e in kept}
        link = raw.link_oracle(models[r])
        st = _streams(kept)
        for s in (streams if streams is not None else sorted(st)):
            ks = st.get(s, [])
            res.counters["streams_judged"] += 1
            exp = collections.Counter()
            cats = collections.Counter()
            gaps_by = collections.defaultdict(list)
            for a, b in zip(ks, ks[1:]):
                gap = b.ts - a.end
                l = link.get(b.id, -1)
                L = byid.get(l) if l > 0 else None
                if l == 0:
                    res.counters["unlinked_kernels"] += 1
                if L is not None and L.ts == a.end:
                    res.counters["launch_start_equals_prev_end"] += 1
                if gap == thr:
                    res.counters["gap_equals_threshold"] += 1
                if L is not None and L.ts > a.end:
                    c = "host_wait"
                elif gap < thr:
                    c = "kernel_wait"
                else:
                    c = "other"
                exp[c] += gap
                cats[c] += 1
                gaps_by[c].append(gap)
                res.counters[f"gaps_{c}"] += 1
            sub = df[(df["rank"] == r) & (df["stream"] == s)]
            got = {c: float(v) for c, v in zip(sub["idle_category"].tolist(), sub["idle_time"].tolist())}
            if len(got) != len(sub):
                res.bad("category-row-unique", f"rank {r} stream {s}: duplicate category rows")
            # the result frame is rounded to two decimals (result_df.round(2)): exact for whole microseconds, half a unit of
            # the second decimal for sub-microsecond traces
            tol = 0.005 + 1e-9 if core.FLOAT_MODE else 0.0
            bad = {c: (got.get(c, 0.0), float(exp.get(c, 0))) for c in set(got) | set(exp) if abs(got.get(c, 0.0) - float(exp.get(c, 0))) > tol}
            if bad:
                res.bad("idle-by-category", f"rank {r} stream {s} threshold {thr}: (reported, expected) {bad}; kernels "
                        f"{[(k.id, k.ts - ld.min_ts, k.end - ld.min_ts, (byid[link[k.id]].ts - ld.min_ts) if link.get(k.id, -1) > 0 and link[k.id] in byid else None) for k in ks][:10]} "
                        f"[(id, start, end, launch start)]", rank=r, stream=s, thr=thr, bad=str(bad),
                        unlinked=[k.id for k in ks if link.get(k.id, -1) == 0])
            if stats is not None and not bad:
                _check_stats(res, stats, r, s, gaps_by)
            total = sum(exp.values())
            if ks:
                span_busy = (ks[-1].end - ks[0].ts) - sum(k.dur for k in ks)
                if abs(sum(got.values()) - span_busy) > 1e-9 + tol * max(1, len(got)) and not bad:
                    res.bad("idle-total", f"rank {r} stream {s}: categories add up to {sum(got.values())}, span - busy = {span_busy}")
            if total > 0:
                ratios = [float(x) for x in sub["idle_time_ratio"].tolist()]
                if abs(sum(ratios) - 1.0) > 0.005 * max(1, len(ratios)) + 1e-9:
                    res.bad("ratios-sum", f"rank {r} stream {s}: idle_time_ratio values {ratios} do not add up to 1")
                for c, ratio in zip(sub["idle_category"].tolist(), ratios):
                    if abs(ratio - exp.get(c, 0) / total) > 0.005 + 1e-9 and not bad:      # two decimals, either rounding of .xx5
                        res.bad("ratio", f"rank {r} stream {s} {c}: ratio {ratio} is not {exp.get(c, 0)}/{total} to two decimals")
            if len(ks) >= 3 and sum(1 for c in exp if exp[c] > 0) >= 2:
                nontrivial = True
    res.nontrivial = res.nontrivial or nontrivial
    res.trivial_reason = "no stream with >= 3 kernels and >= 2 categories"
    res.key = core.digest([case["files"], res.key, ranks, streams, thr])
    res.sample = {"ranks": ranks, "streams": streams, "threshold": thr, "rows": df.head(6).to_dict("records")}
    return True
