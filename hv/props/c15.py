"""C15 — launch statistics list every launch/activity pair with exact durations and delay."""
from __future__ import annotations

import collections
from typing import Any, Dict

from hv import core, drv, gen_sim, wf
from hv.ref import load as refload
from hv.ref import raw

ID = "C15"
RULE = ("G-sim traces (1-3 host threads, 1-4 streams, kernels that start before their launch call ends (negative raw delay), "
        "non-launch runtime calls carrying ids, driver-API launches, launches without kernel, dropped launches/kernels, 1-3 ranks, "
        "tight equal-timestamp mode) loaded through TraceAnalysis with and without include_last_profiler_step; optional history of 1-3 other read-only analyses (memory bandwidth, queue length, breakdowns, ...) on the same object first; get_cuda_kernel_launch_stats for every rank subset, with and "
        "without memory events; oracle = multiset of (correlation, cpu_duration, gpu_duration, max(0, k.ts - l.ts - l.dur)) over "
        "linked pairs whose host call is cudaLaunchKernel / cudaLaunchKernelExC (+ cudaMemcpyAsync / cudaMemsetAsync when requested). "
        "Non-trivial: >= 3 pairs, >= 1 clipped (negative raw) delay and >= 1 positive delay. Distinct = hash of files + configuration.")
ASSUMPTIONS = ["well-formed regime (hv/wf.py)", "launch names as documented in the analyser: cudaLaunchKernel, cudaLaunchKernelExC, "
               "cudaMemcpyAsync, cudaMemsetAsync (driver-API cuLaunchKernel is not part of these statistics)",
               "pairs are those surviving the documented trimming of the trailing profiler step (hv/ref/load.py)"]
FLOAT_KEYS = ["files"]          # fractional-time-unit workload class (hv/shard.py)
PLAN = {"quick": {"shards": 16, "cases": 960, "timeout": 600}, "thorough": {"shards": 16, "cases": 10000, "timeout": 3000}}
FLOORS = {"quick": {"distinct_nontrivial": 120, "pairs_judged": 2500, "clipped_delays": 600, "positive_delays": 800, "memory_pairs": 500,
                    "calls_without_memory": 150, "multi_rank_calls": 100, "calls_after_history": 150, "loads_including_last_step": 100},
          "thorough": {"distinct_nontrivial": 2500, "pairs_judged": 50000, "clipped_delays": 12000, "positive_delays": 16000,
                       "memory_pairs": 10000, "calls_without_memory": 3000, "multi_rank_calls": 2000, "calls_after_history": 3000, "loads_including_last_step": 2000}}
KLAUNCH = {"cudaLaunchKernel", "cudaLaunchKernelExC", "runFunction - job_prep_and_submit_for_execution"}
MLAUNCH = {"cudaMemcpyAsync", "cudaMemsetAsync"}
PRE_CALLS = ["get_memory_bw_time_series", "get_queue_length_time_series", "get_memory_bw_summary", "get_temporal_breakdown",
             "get_idle_time_breakdown", "get_comm_comp_overlap", "get_gpu_kernel_breakdown", "get_cuda_kernel_launch_stats"]


def _pre_call(ta, name: str, ranks) -> None:  # noqa: ANN001
    """Earlier analyses on the same object; their own results are judged by their own properties, here only
    their side effects on what follows matter, so their exceptions are ignored."""
    try:
        if name in ("get_memory_bw_time_series", "get_queue_length_time_series", "get_memory_bw_summary"):
            getattr(ta, name)(ranks)
        elif name == "get_idle_time_breakdown":
            ta.get_idle_time_breakdown(ranks=ranks, visualize=False)
        elif name == "get_cuda_kernel_launch_stats":
            ta.get_cuda_kernel_launch_stats(ranks=ranks, visualize=False)
        else:
            getattr(ta, name)(visualize=False)
    except Exception:  # noqa: BLE001
        pass


def gen_case(rnd, tier: str, i: Any) -> Dict[str, Any]:
    n_ranks = rnd.choice([1, 1, 2, 3])
    first_step = gen_sim.pick_first_step(rnd)
    n_steps = rnd.choice([0, 1, 2, 3])
    files = {}
    exotic = rnd.random() < 0.3
    ragged = n_ranks > 1 and n_steps >= 2 and rnd.random() < 0.3     # ranks that recorded different (non-empty) subsets of the steps
    for r in range(n_ranks):
        fs, ns = first_step, n_steps
        if ragged and r > 0:
            ns = rnd.randint(1, n_steps)
            fs = first_step + rnd.randint(0, n_steps - ns)
        # exotic: copies / memsets / kernels issued through calls outside the analyser's list (blocking cudaMemcpy, cudaMemset,
        # cudaMemcpy2DAsync, cudaGraphLaunch ...): linked pairs that are not rows of these statistics
        p = gen_sim.random_params(rnd, tier, rank=r, first_step=fs, n_steps=ns, exotic_launch=exotic)
        tr = gen_sim.gen_trace(rnd, **p)
        gen_sim.drop_events(rnd, tr, p_launch=rnd.choice([0, 0, 0.15]), p_kernel=rnd.choice([0, 0, 0.15]))
        files[f"rank{r}.json"] = tr
    ranks = sorted(rnd.sample(range(n_ranks), rnd.randint(1, n_ranks)))
    # multi-step histories: other read-only analyses called on the same TraceAnalysis object before the statistics
    pre = rnd.sample(PRE_CALLS, rnd.choice([0, 0, 1, 2, 3]))
    return {"files": files, "cfg": {"ranks": ranks, "include_memory_events": rnd.random() < 0.6, "pre_calls": pre,
                                    "inc_last": rnd.random() < 0.4,
                                    # the rank list as user code has it: python ints, numpy integers (np.arange, Series.unique()), or a mix
                                    "rank_type": rnd.choice(["int", "int", "np64", "np32", "mixed"])}}


def fixed_cases(tier: str):
    from hv import samples
    out = [dict(c, cfg={"ranks": [0], "include_memory_events": m, "pre_calls": []}) for c in samples.sample_cases(tier) for m in (False, True)]
    if tier == "thorough":
        out = out + [{"files": {"rank0.json": gen_sim.huge_trace(23)}, "cfg": {"ranks": [0], "include_memory_events": True, "pre_calls": [], "inc_last": False}, "time_unit": 1}]          # row ids beyond int16
    return out


def run_case(case: Dict[str, Any], ctx: Any) -> core.CaseResult:
    res = core.CaseResult()
    cfg = case["cfg"]
    models = {}
    for fn, tr in case["files"].items():
        m = raw.model(tr["traceEvents"])
        why = wf.well_formed(m, tr["traceEvents"])
        if why:
            res.discarded, res.discard_reason = True, "not well-formed: " + why.split(":")[0][:50]
            return res
        models[tr["distributedInfo"]["rank"]] = m
    inc_last = bool(cfg.get("inc_last"))
    ld = refload.loaded(models, inc_last)
    if inc_last:
        res.counters["loads_including_last_step"] += 1
    d = ctx.scratch.new("c15")
    try:
        core.write_trace_files(d, case["files"])
        ok, ta = drv.guard(res, "TraceAnalysis(load)", drv.new_analysis, d, **({"include_last_profiler_step": True} if inc_last else {}))
        if not ok:
            return res
        for name in cfg.get("pre_calls", []):
            _pre_call(ta, name, cfg["ranks"])
            res.counters["pre_calls"] += 1
        if cfg.get("pre_calls"):
            res.counters["calls_after_history"] += 1
        import numpy as np
        rt = cfg.get("rank_type", "int")
        ranks_arg = [np.int64(r) if rt == "np64" or (rt == "mixed" and k % 2) else np.int32(r) if rt == "np32" else r for k, r in enumerate(cfg["ranks"])]
        if rt != "int":
            res.counters["calls_with_numpy_integer_ranks"] += 1
        ok, out = drv.guard(res, "get_cuda_kernel_launch_stats", ta.get_cuda_kernel_launch_stats, ranks=ranks_arg,
                            include_memory_events=cfg["include_memory_events"], visualize=False)
        if not ok:
            return res
        if sorted(out) != sorted(cfg["ranks"]):
            res.bad("ranks", f"result has ranks {sorted(out)}, requested {cfg['ranks']}")
        names = KLAUNCH | (MLAUNCH if cfg["include_memory_events"] else set())
        n_pairs = n_clip = n_pos = 0
        for r in cfg["ranks"]:
            if r not in out:
                continue
            kept = ld.kept[r]
            host = {e.corr: e for e in kept if e.stream == -1 and e.name in names and e.corr >= 0}
            exp = collections.Counter()
            for k in kept:
                if k.stream != -1 and k.corr in host:
                    l = host[k.corr]
                    rawd = k.ts - l.ts - l.dur
                    exp[(k.corr, l.dur, k.dur, max(0, rawd))] += 1
                    n_pairs += 1
                    n_clip += rawd < 0
                    n_pos += rawd > 0
                    if l.name in MLAUNCH:
                        res.counters["memory_pairs"] += 1
            df = out[r]
            got = collections.Counter(zip(df["correlation"].tolist(), df["cpu_duration"].tolist(), df["gpu_duration"].tolist(), df["launch_delay"].tolist()))
            if got != exp:
                res.bad("launch-stats-rows", f"rank {r} (include_memory_events={cfg['include_memory_events']}): rows not expected "
                        f"{list((got - exp).items())[:4]}; expected rows missing {list((exp - got).items())[:4]} "
                        f"[(correlation, cpu_duration, gpu_duration, launch_delay)]", rank=r)
        res.counters["pairs_judged"] += n_pairs
        res.counters["clipped_delays"] += n_clip
        res.counters["positive_delays"] += n_pos
        if not cfg["include_memory_events"]:
            res.counters["calls_without_memory"] += 1
        if len(cfg["ranks"]) > 1:
            res.counters["multi_rank_calls"] += 1
        res.nontrivial = n_pairs >= 3 and n_clip >= 1 and n_pos >= 1
        res.trivial_reason = "fewer than 3 pairs or no clipped / no positive delay"
        res.key = core.digest([case.get("sample") or case["files"], cfg])
        if case.get("sample"):
            res.counters["real_sample_traces"] += 1
        res.sample = {"cfg": cfg, "ranks_in_trace": len(models), "pairs": n_pairs, "clipped": n_clip, "positive": n_pos,
                      "rows_head": out[cfg["ranks"][0]].head(3).to_dict("records") if cfg["ranks"][0] in out else None}
    finally:
        ctx.scratch.drop(d)
    return res
