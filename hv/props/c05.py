"""C05 — kernel breakdown partitions busy time by type and conserves per-kernel time."""
from __future__ import annotations

import collections
from typing import Any, Dict

from hv import core, drv, gen_int
from hv.props import c04
from hv.ref import intervals as iv

ID = "C05"
RULE = ("G-int arrangements (as C04) with 1-19 distinct kernel names per type, num_kernels in {1,2,3,10}, duration_ratio in "
        "{0.1,0.5,0.8,1.0}, memory kernels on/off, 1-4 ranks; oracle (a) sweep giving per elementary segment the exact set of analysed "
        "types running, summed over ranks, vs. the kernel-type table (absent row <=> 0, percentages round(.,1)); (b) per rank and type "
        "conservation incl. 'others', at most num_kernels named rows, each named row's sum/min/max/mean equal to those of the kernels "
        "with that name. Non-trivial: >= 2 analysed types overlapping in time, or more names than num_kernels. Distinct = hash of "
        "files + parameters.")
ASSUMPTIONS = ["a kernel / annotation literally named 'others' is merged into the aggregate row: only conservation and the cap are judged for it", "total analysed busy time > 0 (percentages)", "type by the documented name rules"]
FLOAT_KEYS = ["files"]          # fractional-time-unit workload class (hv/shard.py)
PLAN = {"quick": {"shards": 16, "cases": 640, "timeout": 600}, "thorough": {"shards": 16, "cases": 8000, "timeout": 3000}}
FLOORS = {"quick": {"distinct_nontrivial": 150, "second_or_later_request_on_same_object": 150, "type_tables": 350, "per_type_groups": 1200, "named_rows_judged": 2000, "others_rows": 150,
                    "combo_rows_multi": 150, "annotation_breakdowns": 100, "annotation_rows_judged": 300},
          "thorough": {"distinct_nontrivial": 3000, "type_tables": 7000, "per_type_groups": 24000, "named_rows_judged": 40000, "others_rows": 3000,
                       "combo_rows_multi": 3000, "annotation_breakdowns": 2000, "annotation_rows_judged": 6000}}


def setup(ctx: Any) -> None:
    c04.install_merge_contract(ctx)


def gen_case(rnd, tier: str, i: Any) -> Dict[str, Any]:
    c = gen_int.gen_case(rnd, tier, annotations=True)
    def prm():
        return {"num_kernels": rnd.choice([1, 2, 3, 10]), "duration_ratio": rnd.choice([0.1, 0.5, 0.8, 1.0]),
                "include_memory_kernels": rnd.random() < 0.5, "use_gpu_annotation": rnd.random() < 0.6,
                "allowlist": rnd.choice([None, None, ["fwd"], ["nccl:", "loss"], ["nomatch"]])}
    if rnd.random() < 0.2:
        # file order is free: an annotation span is the first entry of the event list, so that its category is the first symbol
        # registered (symbol id 0) - seed C11-Q tested the category's id for truth
        want = rnd.choice(["gpu_user_annotation", "user_annotation"])
        for tr in c["files"].values():
            evs = tr["traceEvents"]
            k = next((j for j, e in enumerate(evs) if isinstance(e, dict) and e.get("cat") == want and "dur" in e), None)
            if k is not None:
                evs.insert(0, evs.pop(k))
    if rnd.random() < 0.15:
        # an exporter that writes the stream id as a numeric string ("stream": "7"): the loader documents that it converts them
        # (normalize_gpu_stream_numbers); one file of the set, or all (seed C05-Q kept integers only)
        trs = list(c["files"].values())
        for tr in (trs if rnd.random() < 0.5 else trs[-1:]):
            for e in tr["traceEvents"]:
                a = e.get("args") if isinstance(e, dict) else None
                if isinstance(a, dict) and isinstance(a.get("stream"), int) and not isinstance(a.get("stream"), bool):
                    a["stream"] = str(a["stream"])
    c["params"] = prm()
    # further requests on the same TraceAnalysis object (other parameter values); each is judged on its own
    c["more_params"] = [prm() for _ in range(rnd.choice([0, 0, 1, 2]))]
    c["pre_calls"] = rnd.sample(c04.PRE_CALLS, rnd.choice([0, 0, 1, 2]))
    return c


def _annotation_breakdown(case, ta, prm, res) -> bool:  # noqa: ANN001
    """get_gpu_user_annotation_breakdown uses the same aggregator: conservation, cap (allow-listed names are never folded) and
    per-name statistics per rank."""
    import re as _re
    from hv.ref import raw as _raw

    cat = "gpu_user_annotation" if prm["use_gpu_annotation"] else "user_annotation"
    per_rank = {}
    for tr in case["files"].values():
        evs = [e for e in _raw.model(tr["traceEvents"]) if e.cat == cat]
        per_rank[tr["distributedInfo"]["rank"]] = evs
    present = any(per_rank.values())
    ok, df = drv.guard(res, "get_gpu_user_annotation_breakdown", ta.get_gpu_user_annotation_breakdown, prm["use_gpu_annotation"], False,
                       prm["duration_ratio"], prm["num_kernels"], prm["allowlist"])
    if not ok:
        return False
    if not present:
        if df is not None and len(df):
            res.bad("annotation-breakdown-absent", f"no {cat} events but a breakdown with {len(df)} rows")
        return False
    if df is None:
        res.bad("annotation-breakdown-present", f"{cat} events exist but the breakdown is None")
        return False
    res.counters["annotation_breakdowns"] += 1
    all_names = {e.name for evs in per_rank.values() for e in evs} | {e.name for tr in case["files"].values() for e in _raw.model(tr["traceEvents"])}
    allow = set()
    if prm["allowlist"]:
        rx = _re.compile("|".join(_re.escape(p) for p in prm["allowlist"]))
        allow = {n for n in all_names if isinstance(n, str) and rx.search(n)}
    many = False
    for r, evs in per_rank.items():
        durs = collections.defaultdict(list)
        for e in evs:
            durs[e.name].append(e.dur)
        sub = df[df["rank"] == r]
        if not evs:
            if len(sub):
                res.bad("annotation-rows", f"rank {r}: rows without annotation events")
            continue
        if len(durs) > prm["num_kernels"]:
            many = True
        tot = sum(sum(v) for v in durs.values())
        if abs(float(sub["sum (us)"].sum()) - tot) > 1e-9:
            res.bad("annotation-conservation", f"rank {r} {cat}: reported sums add up to {sub['sum (us)'].sum()}, annotations' durations to {tot}")
        named = sub[sub["name"] != "others"]
        not_allowed = [n for n in named["name"].tolist() if n not in allow]
        if len(not_allowed) > prm["num_kernels"]:
            res.bad("annotation-num-kernels-cap", f"rank {r} {cat}: {len(not_allowed)} named rows outside the allow-list with num_kernels={prm['num_kernels']}")
        folded_allowed = [n for n in allow if n in durs and n not in set(named["name"].tolist())]
        if folded_allowed and len(durs) > prm["num_kernels"]:
            res.bad("annotation-allowlist-kept", f"rank {r} {cat}: allow-listed names {folded_allowed[:3]} were folded into 'others'")
        for nm, s_, mx, mn, mean in zip(named["name"].tolist(), named["sum (us)"].tolist(), named["max (us)"].tolist(), named["min (us)"].tolist(), named["mean (us)"].tolist()):
            res.counters["annotation_rows_judged"] += 1
            v = durs.get(nm)
            if v is None:
                res.bad("annotation-row-known", f"rank {r} {cat}: row for unknown annotation {nm!r}")
                continue
            want = (sum(v), max(v), min(v), sum(v) / len(v))
            if (float(s_), float(mx), float(mn)) != tuple(map(float, want[:3])) or abs(float(mean) - want[3]) > 1e-9:
                res.bad("annotation-row-stats", f"rank {r} {cat} {nm!r}: (sum,max,min,mean)=({s_},{mx},{mn},{mean}) but its {len(v)} annotations give {want}")
                break
    return many


def run_case(case: Dict[str, Any], ctx: Any) -> core.CaseResult:
    res = core.CaseResult()
    per_rank = {tr["distributedInfo"]["rank"]: c04.activities(tr) for tr in case["files"].values()}
    for r, acts in per_rank.items():
        if not acts:
            res.discarded, res.discard_reason = True, "rank without device activity"
            return res
    d = ctx.scratch.new("c05")
    try:
        core.write_trace_files(d, case["files"])
        ok, ta = drv.guard(res, "TraceAnalysis(load)", drv.new_analysis, d)
        if not ok:
            return res
        for nm in case.get("pre_calls", []):
            c04.pre_call(ta, nm, sorted(per_rank))
        if case.get("pre_calls"):
            res.counters["requests_after_other_analyses"] += 1
        seq = [case["params"]] + list(case.get("more_params", []))
        for k, prm in enumerate(seq):
            if k >= 1:
                res.counters["second_or_later_request_on_same_object"] += 1
            if not _one_request(case, ta, prm, per_rank, res, k):
                break
        res.key = core.digest([case["files"], seq])
    finally:
        ctx.scratch.drop(d)
    return res


def _one_request(case, ta, prm, per_rank, res, k) -> bool:  # noqa: ANN001
    types = ["COMPUTATION", "COMMUNICATION"] + (["MEMORY"] if prm["include_memory_kernels"] else [])
    exp_combo: Dict[frozenset, int] = {}
    for r, acts in per_rank.items():
        for key, v in iv.segments([(e.ts, e.end, iv.kernel_type(e.name)) for e in acts], types).items():
            exp_combo[key] = exp_combo.get(key, 0) + v
    total = sum(exp_combo.values())
    if total == 0:
        if k == 0:
            res.discarded, res.discard_reason = True, "analysed busy time == 0"
        return False
    if True:
        ok, out = drv.guard(res, "get_gpu_kernel_breakdown", ta.get_gpu_kernel_breakdown, visualize=False, num_kernels=prm["num_kernels"],
                            duration_ratio=prm["duration_ratio"], include_memory_kernels=prm["include_memory_kernels"])
        if not ok:
            return False
        kt, ak = out
        res.counters["type_tables"] += 1
        # ---- (a) kernel-type table
        got_combo: Dict[frozenset, float] = {}
        for label, s_, pct in zip(kt["kernel_type"].tolist(), kt["sum"].tolist(), kt["percentage"].tolist()):
            key = frozenset(label.split(" overlapping "))
            if key in got_combo:
                res.bad("type-row-unique", f"two rows for the combination {sorted(key)}")
            got_combo[key] = s_
            if not key <= set(types):
                res.bad("type-row-label", f"row {label!r} names a type that is not analysed ({types})")
            want_pct = round(100 * s_ / total, 1) if total else 0
            if abs(float(pct) - (100 * s_ / total if total else 0)) > 0.05 + 1e-9:      # one decimal, either rounding of .x5
                res.bad("type-percentage", f"row {label!r}: percentage {pct} != round(100*{s_}/{total},1) = {want_pct}")
            if len(key) > 1:
                res.counters["combo_rows_multi"] += 1
        keys = set(got_combo) | set(exp_combo)
        diff = {tuple(sorted(k)): (float(got_combo.get(k, 0)), exp_combo.get(k, 0)) for k in keys if float(got_combo.get(k, 0)) != float(exp_combo.get(k, 0))}
        if diff:
            res.bad("type-partition", f"request #{k + 1}: kernel-type table (reported, expected) differs for {diff}; params {prm}; rank0 activities "
                    f"{sorted((e.ts, e.end, iv.kernel_type(e.name)[:4]) for e in next(iter(per_rank.values())))[:12]}", diff=str(diff))
        if abs(sum(float(v) for v in got_combo.values()) - total) > 1e-9:
            res.bad("type-total", f"rows add up to {sum(got_combo.values())}, union of analysed kernels measures {total}")
        # ---- (b) per-kernel table
        many_names = False
        for r, acts in per_rank.items():
            for ty in types:
                durs: Dict[str, list] = collections.defaultdict(list)
                for e in acts:
                    if iv.kernel_type(e.name) == ty:
                        durs[e.name].append(e.dur)
                sub = ak[(ak["rank"] == r) & (ak["kernel_type"] == ty)]
                res.counters["per_type_groups"] += 1
                if len(durs) > prm["num_kernels"]:
                    many_names = True
                tot_t = sum(sum(v) for v in durs.values())
                if abs(float(sub["sum (us)"].sum()) - tot_t) > 1e-9:
                    res.bad("per-kernel-conservation", f"rank {r} {ty}: reported sums add up to {sub['sum (us)'].sum()}, kernels' durations to {tot_t}")
                named = sub[sub["name"] != "others"]
                res.counters["others_rows"] += int((sub["name"] == "others").sum())
                if len(named) > prm["num_kernels"]:
                    res.bad("num-kernels-cap", f"rank {r} {ty}: {len(named)} named rows with num_kernels={prm['num_kernels']}")
                if named["name"].duplicated().any():
                    res.bad("named-row-unique", f"rank {r} {ty}: duplicate named rows")
                nb = 0
                if "others" in durs:
                    res.counters["groups_with_kernel_named_others"] += 1
                for nm, s_, mx, mn, mean in zip(named["name"].tolist(), named["sum (us)"].tolist(), named["max (us)"].tolist(),
                                                named["min (us)"].tolist(), named["mean (us)"].tolist()):
                    res.counters["named_rows_judged"] += 1
                    v = durs.get(nm)
                    if v is None:
                        res.bad("named-row-known", f"rank {r} {ty}: row for unknown kernel name {nm!r}")
                        continue
                    want = (sum(v), max(v), min(v), sum(v) / len(v))
                    if (float(s_), float(mx), float(mn)) != tuple(map(float, want[:3])) or abs(float(mean) - want[3]) > 1e-9:
                        nb += 1
                        if nb <= 2:
                            res.bad("named-row-stats", f"rank {r} {ty} {nm!r}: (sum,max,min,mean)=({s_},{mx},{mn},{mean}) but its {len(v)} kernels give {want}; "
                                    f"params {prm}, names of this type {len(durs)}", n_names=len(durs), num_kernels=prm["num_kernels"])
        many_names = _annotation_breakdown(case, ta, prm, res) or many_names
        multi = any(len(k) > 1 and v > 0 for k, v in exp_combo.items())
        res.nontrivial = res.nontrivial or multi or many_names
        res.trivial_reason = "no two analysed types overlap and names <= num_kernels"
        res.sample = {"params": prm, "ranks": len(per_rank), "expected_type_times": {" & ".join(sorted(k)): v for k, v in exp_combo.items()},
                      "type_table": kt.to_dict("records")[:4], "per_kernel_rows": ak.head(3).to_dict("records")}
    return True
