"""C17 — trace diff counts and durations are exact; change classes partition the names."""
from __future__ import annotations

import collections
import copy
from typing import Any, Dict, List

from hv import core, drv, gen_sim, wf
from hv.ref import load as refload
from hv.ref import raw

ID = "C17"
RULE = ("pairs of G-sim trace directories (identical / perturbed: events removed, durations changed, ops renamed / different "
        "vocabularies), 1-3 ranks each, EVERY kind of rank selection (None, single int, full list, proper subsets of size >= 2), "
        "iteration None / single / lists, device filter ALL / CPU / GPU, long and short names, distinct / identical / default labels, ops_diff before or after compare_traces on fresh objects; compare_traces and ops_diff vs. "
        "per-name counts and durations recomputed from the raw files with the reference iteration assignment (parse-only, no "
        "trimming); plus the self-comparison law. Non-trivial: >= 3 of the 5 change classes non-empty, or a proper rank subset of "
        "size >= 2. Distinct = hash of both file sets + selection.")
ASSUMPTIONS = ["well-formed regime (hv/wf.py); iteration reference hv/ref/load.py (C12)", "short names use the repository's shorten_name (trusted helper)",
               "iterations / ranks passed are valid for the traces (the API raises ValueError otherwise)"]
FLOAT_KEYS = ["control", "test"]          # fractional-time-unit workload class (hv/shard.py)
PLAN = {"quick": {"shards": 16, "cases": 480, "timeout": 900}, "thorough": {"shards": 16, "cases": 5000, "timeout": 3400}}
FLOORS = {"quick": {"distinct_nontrivial": 60, "names_judged": 3000, "proper_rank_subsets": 25, "self_comparisons": 25, "short_name_calls": 60, "identical_labels": 60, "ops_diff_called_first": 80, "fractional_duration_rows": 100,
                    "cases_with_a_name_under_two_categories": 60, "tables_after_a_table_in_the_other_naming_mode": 100, "labeled_trace_from_trace_loaded": 60,
                    "class_added": 200, "class_deleted": 200, "class_increased": 100, "class_decreased": 100, "class_unchanged": 500},
          "thorough": {"distinct_nontrivial": 1200, "names_judged": 100000, "proper_rank_subsets": 500, "self_comparisons": 500, "short_name_calls": 1200, "identical_labels": 1000, "ops_diff_called_first": 1400, "fractional_duration_rows": 2000,
                       "cases_with_a_name_under_two_categories": 1000, "tables_after_a_table_in_the_other_naming_mode": 2000,
                       "class_added": 4000, "class_deleted": 4000, "class_increased": 2000, "class_decreased": 2000, "class_unchanged": 10000}}


def _perturb(rnd, tr: Dict[str, Any], mode: str) -> Dict[str, Any]:
    t = copy.deepcopy(tr)
    if mode == "identical":
        return t
    ev = t["traceEvents"]
    out = []
    for i, e in enumerate(ev):
        if i > 0 and e.get("ph") == "X" and e.get("cat") in ("cpu_op", "kernel", "gpu_memcpy"):
            x = rnd.random()
            if x < 0.12 and e.get("cat") != "cpu_op":
                continue                                   # device activity removed (host nesting untouched)
            if x < 0.25 and e.get("cat") == "cpu_op" and e["dur"] == 0:
                continue
            if x < 0.4:
                e["name"] = e["name"] + rnd.choice(["_v2", "<float>", "(int)"])
        out.append(e)
    t["traceEvents"] = out
    return t


def gen_case(rnd, tier: str, i: Any) -> Dict[str, Any]:
    n_ranks = rnd.choice([1, 2, 3, 3])
    first_step = gen_sim.pick_first_step(rnd)
    n_steps = rnd.choice([1, 2, 3])
    mode = rnd.choice(["identical", "perturbed", "perturbed", "vocab"])
    control, test = {}, {}
    ragged = n_ranks > 1 and n_steps >= 2 and rnd.random() < 0.3      # ranks that recorded different (non-empty) subsets of the steps
    bracket_names = rnd.sample(["<built-in function len>", "<lambda>", "(anonymous)", "<unknown>", "<built-in method item of Tensor object at 0x7f10>"], 3) \
        if rnd.random() < 0.3 else []
    graph = rnd.random() < 0.3
    for r in range(n_ranks):
        fs, ns = first_step, n_steps
        if ragged and r > 0:
            ns = rnd.randint(1, n_steps)
            fs = first_step + rnd.randint(0, n_steps - ns)
        # graph_launch: one launch call whose correlation id is carried by several kernels (CUDA graph replay)
        p = gen_sim.random_params(rnd, tier, rank=r, first_step=fs, n_steps=ns, repeat_names=True, graph_launch=graph)
        if bracket_names:
            # names that consist of one bracketed group only: their short name is the empty string
            p["ops_pool"] = ["aten::mm", "aten::add"] + bracket_names
        tr = gen_sim.gen_trace(rnd, **p)
        # launch calls / device activities that the profiler did not record (an activity without its launch call belongs to no iteration)
        gen_sim.drop_events(rnd, tr, p_launch=rnd.choice([0, 0, 0.15]), p_kernel=rnd.choice([0, 0, 0.1]))
        control[f"rank{r}.json"] = tr
        if mode == "vocab":
            p2 = dict(p, ops_pool=["aten::conv2d", "aten::mm", "aten::gelu"])
            test[f"rank{r}.json"] = gen_sim.gen_trace(rnd, **p2)
        else:
            test[f"rank{r}.json"] = _perturb(rnd, tr, mode)
    if rnd.random() < 0.25:
        # integer timestamps with sub-microsecond durations on device activities (ns-resolution kernels)
        for side in (control, test):
            for tr in side.values():
                for e in tr["traceEvents"]:
                    if e.get("ph") == "X" and e.get("cat") in ("kernel", "gpu_memcpy", "gpu_memset") and rnd.random() < 0.6:
                        e["dur"] = e["dur"] + rnd.choice([0.125, 0.25, 0.5, 0.75])
    dual_cat = rnd.random() < 0.3
    if dual_cat:
        # one name recorded under two categories (a record_function / user annotation named like an operator)
        for side in ((control,) if test is control else (control, test)):
            for tr in side.values():
                for k, e in enumerate(tr["traceEvents"]):
                    if k > 0 and e.get("ph") == "X" and e.get("cat") == "cpu_op" and rnd.random() < 0.3:
                        e["cat"] = "user_annotation"
    steps = list(range(first_step, first_step + n_steps))

    def sel_ranks():
        x = rnd.random()
        if x < 0.2:
            return None
        if x < 0.4:
            return rnd.randrange(n_ranks)
        if x < 0.6 or n_ranks < 3:
            return list(range(n_ranks))
        return sorted(rnd.sample(range(n_ranks), 2))       # proper subset of size >= 2

    def sel_iter():
        x = rnd.random()
        if x < 0.25:
            return None
        if x < 0.5:
            return rnd.choice(steps)
        return sorted(rnd.sample(steps, rnd.randint(1, len(steps))))

    self_cmp = rnd.random() < 0.2
    # ONE LabeledTrace object handed in as control and as test: two ranks / iterations of one job, or the trace against itself
    one_object = rnd.random() < 0.15
    labels = rnd.choice([["Control", "Test"], ["Control", "Test"], ["baseline", "candidate"], ["run", "run"], [None, None]])
    return {"control": control, "test": control if (self_cmp or one_object) else test, "self": self_cmp, "one_object": one_object, "mode": mode, "labels": labels,
            "classes_first": rnd.random() < 0.5, "dual_cat": dual_cat, "second_table": rnd.random() < 0.4,
            # what the LabeledTrace is made from: a directory, or a Trace object in one of the states a session leaves it in
            "made_from": [rnd.choice(["dir", "dir", "trace_fresh", "trace_parsed", "trace_loaded"]) for _ in range(2)],
            "sel": {"control_rank": sel_ranks(), "test_rank": sel_ranks(), "control_iteration": sel_iter(), "test_iteration": sel_iter(),
                    "device": rnd.choice(["ALL", "CPU", "GPU"]), "short": rnd.random() < 0.3}}


def _summary(models, ranks, iterations, device, short):  # noqa: ANN001
    from hta.utils.utils import shorten_name

    all_its = sorted({int(refload.STEP_RE.match(e.name).group(1)) for m in models.values() for e in refload.step_events(m)})
    rks = [sorted(models)[0]] if ranks is None else ([ranks] if isinstance(ranks, int) else ranks)
    its = all_its[:1] if iterations is None else ([iterations] if isinstance(iterations, int) else iterations)
    cnt, dur = collections.Counter(), collections.Counter()
    for r in rks:
        it = refload.iterations(models[r])
        for e in models[r]:
            if it.get(e.id, -1) not in its:
                continue
            if device == "CPU" and e.stream != -1:
                continue
            if device == "GPU" and e.stream == -1:
                continue
            nm = shorten_name(e.name) if short else e.name
            cnt[nm] += 1
            dur[nm] += e.dur
    return cnt, dur


def _judge_table(comp, mods, sel, short, lc, lt, res, what):  # noqa: ANN001
    cc, cd = _summary(mods["control"], sel["control_rank"], sel["control_iteration"], sel["device"], short)
    tc, td = _summary(mods["test"], sel["test_rank"], sel["test_iteration"], sel["device"], short)
    names = set(cc) | set(tc)
    got_names = set(comp.index.tolist())
    if got_names != names:
        res.bad("one-row-per-name", f"{what}: names only in table {sorted(got_names - names)[:4]}; names missing from table {sorted(names - got_names)[:4]} (selection {sel})")
    cols = list(comp.columns)
    if len(cols) < 6 or not (str(cols[0]).endswith("_counts") and str(cols[1]).endswith("_total_duration") and str(cols[2]).endswith("_counts")
                             and str(cols[3]).endswith("_total_duration") and cols[0] != cols[2] and cols[4:6] == ["diff_counts", "diff_duration"]
                             and str(cols[0]).startswith(str(lc.label))):
        res.bad("table-columns", f"{what}: columns {cols} are not <control>_counts, <control>_total_duration, <test>_counts, <test>_total_duration, "
                f"diff_counts, diff_duration (labels {lc.label!r}, {lt.label!r})")
        return cc, cd, tc, td, names
    if len(comp.index) != len(got_names):
        dup = [n for n, c in collections.Counter(comp.index.tolist()).items() if c > 1]
        res.bad("one-row-per-name", f"{what}: several rows for the names {dup[:4]}")
        return cc, cd, tc, td, names
    nb = 0
    for nm in names & got_names:
        res.counters["names_judged"] += 1
        row = comp.loc[nm]
        # columns: <control>_counts, <control>_total_duration, <test>_counts, <test>_total_duration, diff_counts, diff_duration, ...
        got = (row.iloc[0], row.iloc[2], row.iloc[1], row.iloc[3], row["diff_counts"], row["diff_duration"])
        exp = (cc[nm], tc[nm], cd[nm], td[nm], tc[nm] - cc[nm], td[nm] - cd[nm])
        if any(isinstance(x, float) and x != int(x) for x in exp):
            res.counters["fractional_duration_rows"] += 1
        if tuple(float(x) for x in got) != tuple(float(x) for x in exp):
            nb += 1
            if nb <= 3:
                res.bad("counts-durations", f"{what}: {nm!r}: (control_counts, test_counts, control_dur, test_dur, diff_counts, diff_dur)={tuple(float(x) for x in got)} "
                        f"expected {exp} (selection {sel})")
    return cc, cd, tc, td, names


def run_case(case: Dict[str, Any], ctx: Any) -> core.CaseResult:
    res = core.CaseResult()
    sel = case["sel"]
    if case["self"]:
        sel = dict(sel, test_rank=sel["control_rank"], test_iteration=sel["control_iteration"])
    mods = {}
    for side in ("control", "test"):
        mods[side] = {}
        for fn, tr in case[side].items():
            m = raw.model(tr["traceEvents"])
            why = wf.well_formed(m, tr["traceEvents"], shared_device_corr_ok=True)
            if why:
                res.discarded, res.discard_reason = True, "not well-formed: " + why.split(":")[0][:50]
                return res
            mods[side][tr["distributedInfo"]["rank"]] = m
    dc, dt = ctx.scratch.new("c17c"), ctx.scratch.new("c17t")
    try:
        from hta.trace_diff import DeviceType, LabeledTrace, TraceDiff   # trace_diff has its own DeviceType enum

        core.write_trace_files(dc, case["control"])
        core.write_trace_files(dt, case["test"])
        lab = case.get("labels", ["Control", "Test"])
        def _source(how, d):  # noqa: ANN001
            if how == "dir":
                return None, d
            t = drv.new_trace(d)
            if how == "trace_parsed":
                t.parse_traces(use_multiprocessing=False)
            elif how == "trace_loaded":
                t.load_traces(use_multiprocessing=False)        # aligned and trimmed, as TraceAnalysis leaves it
            res.counters[f"labeled_trace_from_{how}"] += 1
            return t, None

        mf = case.get("made_from", ["dir", "dir"])
        tc, dcc = _source(mf[0], dc)
        tt, dtt = _source(mf[1], dt)
        ok, lc = drv.guard(res, "LabeledTrace(control)", LabeledTrace, lab[0], tc, dcc)
        ok2, lt = drv.guard(res, "LabeledTrace(test)", LabeledTrace, lab[1], tt, dtt)
        if not (ok and ok2):
            return res
        if case.get("one_object"):
            lt = lc
            label_before = lc.label
            res.counters["one_object_as_control_and_test"] += 1
        if lc.label == lt.label:
            res.counters["identical_labels"] += 1
        dev = getattr(DeviceType, sel["device"])
        kw = dict(control_rank=sel["control_rank"], test_rank=sel["test_rank"], control_iteration=sel["control_iteration"],
                  test_iteration=sel["test_iteration"], device_type=dev)
        od_first = None
        if case.get("classes_first") and not sel["short"]:
            # the documented entry points may be used in any order: classes before the table, on a fresh pair of objects
            okf, od_first = drv.guard(res, "ops_diff (first call)", TraceDiff.ops_diff, lc, lt, **kw)
            res.counters["ops_diff_called_first"] += 1
        ok, comp = drv.guard(res, "compare_traces", TraceDiff.compare_traces, lc, lt, use_short_name=sel["short"], **kw)
        if not ok:
            res.violations[-1].witness.update(sel=str(sel))
            return res
        for side in ("control", "test"):
            rk = sel[f"{side}_rank"]
            if isinstance(rk, list) and 2 <= len(rk) < len(mods[side]):
                res.counters["proper_rank_subsets"] += 1
        if sel["short"]:
            res.counters["short_name_calls"] += 1
        if case.get("dual_cat"):
            res.counters["cases_with_a_name_under_two_categories"] += 1
        cc, cd, tc, td, names = _judge_table(comp, mods, sel, sel["short"], lc, lt, res, "compare_traces")
        if case.get("second_table"):
            # the same pair of objects asked again with the other naming mode (and once more with the first one)
            for short2 in (not sel["short"], sel["short"]):
                ok, comp2 = drv.guard(res, "compare_traces (again)", TraceDiff.compare_traces, lc, lt, use_short_name=short2, **kw)
                if ok:
                    _judge_table(comp2, mods, sel, short2, lc, lt, res, f"compare_traces again (use_short_name={short2})")
                    res.counters["tables_after_a_table_in_the_other_naming_mode"] += 1
        # ---- classes
        ok, od = drv.guard(res, "ops_diff", TraceDiff.ops_diff, lc, lt, **kw)
        if ok and od_first is not None and {k: sorted(v) for k, v in od_first.items()} != {k: sorted(v) for k, v in od.items()}:
            res.bad("classes-stable", f"ops_diff called first on fresh objects gave {core.short({k: sorted(v) for k, v in od_first.items()}, 300)}, "
                    f"a later call gives {core.short({k: sorted(v) for k, v in od.items()}, 300)} (labels {lab})")
        if ok and not sel["short"]:
            cc0, _ = (cc, cd)
            classes = {k: list(v) for k, v in od.items()}
            seen = collections.Counter(n for v in classes.values() for n in v)
            dup = [n for n, c in seen.items() if c > 1]
            if dup:
                res.bad("classes-disjoint", f"names in more than one class: {dup[:4]}")
            if set(seen) != names:
                res.bad("classes-cover", f"names in no class {sorted(names - set(seen))[:4]}; unknown names {sorted(set(seen) - names)[:4]}")
            exp_cls = {"added": {n for n in names if cc[n] == 0 and tc[n] > 0}, "deleted": {n for n in names if cc[n] > 0 and tc[n] == 0},
                       "increased": {n for n in names if cc[n] > 0 and tc[n] > cc[n]}, "decreased": {n for n in names if tc[n] > 0 and tc[n] < cc[n]},
                       "unchanged": {n for n in names if tc[n] > 0 and tc[n] == cc[n]}}
            for k in exp_cls:
                res.counters[f"class_{k}"] += len(exp_cls[k])
                if set(classes.get(k, [])) != exp_cls[k]:
                    res.bad("class-membership", f"class {k}: unexpected {sorted(set(classes.get(k, [])) - exp_cls[k])[:4]}, missing {sorted(exp_cls[k] - set(classes.get(k, [])))[:4]}")
            if case["self"]:
                res.counters["self_comparisons"] += 1
                if any(classes.get(k) for k in ("added", "deleted", "increased", "decreased")) or (comp["diff_counts"] != 0).any() or (comp["diff_duration"] != 0).any():
                    res.bad("self-comparison", "comparing a trace with itself yields changes")
            n_nonempty = sum(1 for k in exp_cls if exp_cls[k])
        else:
            n_nonempty = 0
        if case.get("one_object") and lc.label != label_before:
            res.bad("labels-left-alone", f"the comparison changed the label of the trace object it was given: {label_before!r} became {lc.label!r}")
        res.nontrivial = n_nonempty >= 3 or any(isinstance(sel[f"{s}_rank"], list) and 2 <= len(sel[f"{s}_rank"]) < len(mods[s]) for s in ("control", "test"))
        res.trivial_reason = "fewer than 3 non-empty change classes and no proper rank subset"
        res.key = core.digest([case["control"], case["test"] if not case["self"] else "self", sel])
        res.sample = {"mode": case["mode"], "self": case["self"], "selection": sel, "names": len(names), "rows_head": comp.head(3).reset_index().to_dict("records")}
    finally:
        ctx.scratch.drop(dc)
        ctx.scratch.drop(dt)
    return res
