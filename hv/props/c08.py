"""C08 — critical-path graph is a forward-in-time DAG with typed, non-negative edges."""
from __future__ import annotations

from typing import Any, Dict, List, Tuple

from hv import core, cpdrv, drv
from hv.ref import cp as refcp

ID = "C08"
RULE = ("G-sim traces (causally consistent, well-formed, K1-free; 1-3 host threads, 1-4 streams, stream / device / event syncs, "
        "stream-wait events, launches without kernel, tight equal-timestamp mode, epoch offsets 0..1.7e15, 1-2 ranks) loaded through "
        "TraceAnalysis; windows '' / ProfilerStep instance / instance range / specific step name / nested annotation; "
        "CRITICAL_PATH_ADD_ZERO_WEIGHT_LAUNCH_EDGE on/off; every add-edge call is logged and the finished graph is checked offline "
        "against the reference (expected node set, host chain, type discipline, weights, acyclicity). Non-trivial: >= 3 edge "
        "types and >= 1 synchronisation edge in the graph. Distinct = hash of (trace, window, flag).")
ASSUMPTIONS = ["regime re-derived from raw events (hv/wf.py); windows without any analysed event are skipped (library asserts)",
               "reference hv/ref/cp.py + hv/ref/load.py (trimming) trusted",
               "event-sync / stream-wait edges are never produced in this environment (pandas copy-on-write drops in-place fillna, DESIGN O1); their clause is checked whenever such an edge appears"]
FLOAT_KEYS = ["files"]          # fractional-time-unit workload class (hv/shard.py)
PLAN = {"quick": {"shards": 16, "cases": 480, "timeout": 900}, "thorough": {"shards": 16, "cases": 5000, "timeout": 3400}}
FLOORS = {
    "quick": {"distinct_nontrivial": 100, "graphs": 400, "edges_checked": 20000, "add_edge_helper.log": 20000,
              "edge_critical_path_sync_dependency": 200, "edge_critical_path_kernel_kernel_delay": 200,
              "edge_critical_path_kernel_launch_delay": 300, "edge_critical_path_dependency": 500, "multi_thread_graphs": 50,
              "sync_event_inside_window_host_call_outside": 10},
    "thorough": {"distinct_nontrivial": 1500, "graphs": 6000, "edges_checked": 300000, "add_edge_helper.log": 300000,
                 "edge_critical_path_sync_dependency": 3000, "edge_critical_path_kernel_kernel_delay": 3000,
                 "edge_critical_path_kernel_launch_delay": 4000, "edge_critical_path_dependency": 8000, "multi_thread_graphs": 800,
                 "sync_event_inside_window_host_call_outside": 150},
}
SYNC_CALLS = {"cudaStreamSynchronize", "cudaDeviceSynchronize", "cudaEventSynchronize", "cudaEventQuery"}


def gen_case(rnd, tier: str, i: Any) -> Dict[str, Any]:
    return cpdrv.gen_case(rnd, tier, i)


def fixed_cases(tier: str):
    return []


def check_graph(A: cpdrv.Analysed, res: core.CaseResult, truth: Dict[str, Any]) -> Dict[str, int]:
    g, v, exp = A.graph, A.view, A.exp
    tag = f"window={A.annotation!r}/{A.instance} rank={A.rank}"
    types: Dict[str, int] = {}
    if A.ok is not True:
        res.bad("analysis-succeeds", f"{tag}: critical_path_analysis returned success={A.ok!r}")
    # ---- nodes
    nl = g.node_list
    got: Dict[Tuple[int, bool], int] = {}
    for pos, n in enumerate(nl):
        if n.idx != pos:
            res.bad("node-id-is-position", f"{tag}: node at position {pos} has idx {n.idx}")
            break
        k = (int(n.ev_idx), bool(n.is_start))
        if k in got:
            res.bad("one-start-one-end-node", f"{tag}: event {k[0]} has two {'start' if k[1] else 'end'} nodes")
        got[k] = core.num(n.ts)
    if not set(g.nodes) <= set(range(len(nl))):        # isolated nodes never enter the networkx graph; ids must be list positions
        res.bad("graph-nodes", f"{tag}: networkx node ids {sorted(set(g.nodes) - set(range(len(nl))))[:5]} are not node_list positions")
    missing = sorted(set(exp.nodes) - set(got))[:6]
    extra = sorted(set(got) - set(exp.nodes))[:6]
    if missing or extra:
        res.bad("node-set", f"{tag}: nodes missing for analysed events {missing}; nodes for non-analysed events {extra} "
                f"(window {A.win}, analysed {len(exp.analysed)})", missing=missing, extra=extra)
    bad_ts = [(k, got[k], exp.nodes[k]) for k in got if k in exp.nodes and got[k] != exp.nodes[k]][:4]
    if bad_ts:
        res.bad("node-time", f"{tag}: node times differ from event start/end: {bad_ts}")
    for ev_id, nid in g.event_to_start_node_map.items():
        if not (0 <= nid < len(nl)) or nl[nid].ev_idx != ev_id or not nl[nid].is_start:
            res.bad("event-to-node-map", f"{tag}: start map of event {ev_id} -> node {nid} is not its start node")
            break
    for ev_id, nid in g.event_to_end_node_map.items():
        if not (0 <= nid < len(nl)) or nl[nid].ev_idx != ev_id or nl[nid].is_start:
            res.bad("event-to-node-map", f"{tag}: end map of event {ev_id} -> node {nid} is not its end node")
            break
    # ---- edges
    byid = v.byid
    edges = []
    for u, w_, data in g.edges(data=True):
        e = data["object"]
        edges.append((u, w_, data["weight"], e))
    try:
        refcp.longest_path(len(nl), [(u, w_, wt) for u, w_, wt, _ in edges])
    except ValueError:
        res.bad("acyclic", f"{tag}: the graph has a cycle")
    logged = {(b, e_, t) for (t, _, _, _, _, _, _, b, e_) in A.log}
    in_graph = {(u, w_, e.type.value) for u, w_, _, e in edges}
    if logged != in_graph:
        res.bad("edge-log", f"{tag}: edges in graph but never added through the edge helper {sorted(in_graph - logged)[:4]}; "
                f"added but absent {sorted(logged - in_graph)[:4]}")
    # consecutive analysed device activities per stream
    dev = sorted((e for e in exp.analysed if e.stream != -1 and e.cat != "cuda_sync"), key=lambda e: (e.ts, e.end, e.id))
    prev_on_stream: Dict[int, int] = {}
    last: Dict[int, int] = {}
    for e in dev:
        if e.stream in last:
            prev_on_stream[e.id] = last[e.stream]
        last[e.stream] = e.id
    tr_ev = {str(k): val for k, val in truth.items()}
    n_missing_chain = len([k for k in exp.span_edges if True])  # filled below
    seen_chain = set()
    for u, w_, wattr, e in edges:
        res.counters["edges_checked"] += 1
        t = e.type.value
        types[t] = types.get(t, 0) + 1
        res.counters[f"edge_{t}"] += 1
        if (e.begin, e.end) != (u, w_):
            res.bad("edge-object", f"{tag}: edge ({u},{w_}) carries object for ({e.begin},{e.end})")
            continue
        s, d = nl[u], nl[w_]
        sk, dk = (int(s.ev_idx), bool(s.is_start)), (int(d.ev_idx), bool(d.is_start))
        se, de = byid.get(sk[0]), byid.get(dk[0])
        desc = f"{t} {sk}@{s.ts} -> {dk}@{d.ts} weight {e.weight}"
        if wattr != e.weight:
            res.bad("weight-attribute", f"{tag}: graph weight {wattr} != edge object weight {e.weight} for {desc}")
        if d.ts < s.ts:
            res.bad("forward-in-time", f"{tag}: edge goes backwards in time: {desc}", edge_type=t)
        if e.weight < 0:
            res.bad("non-negative", f"{tag}: negative weight: {desc}", edge_type=t)
        if se is None or de is None:
            continue
        diff = d.ts - s.ts
        if t == refcp.T_OP:
            if sk[0] == dk[0] and se.stream != -1:
                if not (sk[1] and not dk[1]) or e.weight != diff:
                    res.bad("kernel-span", f"{tag}: device span edge wrong: {desc}")
            elif (sk, dk) in exp.span_edges:
                seen_chain.add((sk, dk))
                if e.weight != exp.span_edges[(sk, dk)]:
                    res.bad("span-weight", f"{tag}: host span edge {desc}: expected weight {exp.span_edges[(sk, dk)]} "
                            f"(time difference {diff}; zero only into the end of a blocking call; dst event {de.name})")
            else:
                res.bad("span-discipline", f"{tag}: operator edge joins nodes that are not consecutive on one thread's call stack: {desc} "
                        f"({se.cat}/{se.name} tid {se.tid} -> {de.cat}/{de.name} tid {de.tid})")
        elif t == refcp.T_DEP:
            if e.weight != 0:
                res.bad("dependency-weight", f"{tag}: dependency edge with weight {e.weight}: {desc}")
            if (sk, dk) not in exp.dep_edges:
                res.bad("dependency-discipline", f"{tag}: dependency edge does not join the end of a top-level operator to the start of the "
                        f"next top-level operator of the same thread: {desc} ({se.name} tid {se.tid} -> {de.name} tid {de.tid})")
        elif t == refcp.T_LAUNCH:
            if not (sk[1] and dk[1] and de.stream != -1 and v.link.get(de.id) == se.id):
                res.bad("launch-discipline", f"{tag}: launch-delay edge does not run from a launch call to the kernel it launched: {desc} "
                        f"({se.cat}/{se.name} -> {de.cat}/{de.name}, link of dst = {v.link.get(de.id)})")
            if e.weight not in (diff, 0):
                res.bad("launch-weight", f"{tag}: launch-delay weight {e.weight} is neither the time difference {diff} nor 0: {desc}")
            if e.weight == 0 and diff != 0 and not A.zero_weight:
                res.bad("launch-weight", f"{tag}: zero-weight launch edge although the flag is off: {desc}")
        elif t == refcp.T_KK:
            if not ((not sk[1]) and dk[1] and se.stream == de.stream and se.stream != -1 and prev_on_stream.get(de.id) == se.id):
                res.bad("kernel-kernel-discipline", f"{tag}: kernel-kernel edge does not join consecutive kernels of one stream: {desc} "
                        f"(streams {se.stream}->{de.stream}, predecessor of dst on its stream = {prev_on_stream.get(de.id)})")
            if e.weight != diff:
                res.bad("kernel-kernel-weight", f"{tag}: kernel-kernel delay weight {e.weight} != time difference {diff}: {desc}")
        elif t == refcp.T_SYNC:
            if e.weight != 0:
                res.bad("sync-weight", f"{tag}: synchronisation edge with weight {e.weight}: {desc}")
            ok = False
            why = ""
            if (not sk[1]) and se.stream != -1 and se.cat != "cuda_sync":
                if not dk[1] and de.stream == -1:                         # kernel end -> end of host call
                    sl = v.link.get(de.id, -1)
                    S = byid.get(sl) if sl > 0 else None
                    if S is None and sl > 0:
                        S = next((x for x in A.model if x.id == sl), None)
                    if de.name in SYNC_CALLS and S is not None:
                        s_end = S.end if S.id in byid else S.end - A.min_ts
                        if S.name == "Stream Sync":
                            ok = se.stream == S.stream and se.ts <= s_end and se.end <= de.end
                        elif S.name == "Context Sync":
                            ok = se.ts <= s_end and se.end <= de.end
                        elif S.name == "Event Sync":
                            src_l = {str(h): l for h, l in tr_ev.get("event_sync", [])}.get(str(de.corr))
                            ok = src_l is not None and byid.get(v.link.get(se.id, -1)) is not None and byid[v.link[se.id]].corr == src_l
                            res.counters["event_sync_edges"] += 1
                        why = f"host call {de.name}, sync event {S.name} on stream {S.stream} ending {s_end}"
                    else:
                        why = f"destination {de.name} is not a synchronising call with a sync event"
                elif dk[1] and de.stream != -1 and de.stream != se.stream:   # kernel end -> start of waiting kernel
                    res.counters["stream_wait_edges"] += 1
                    for h, s2, src_l in tr_ev.get("stream_wait", []):
                        lk = byid.get(v.link.get(se.id, -1))
                        if s2 == de.stream and lk is not None and lk.corr == src_l and de.ts >= se.end:
                            ok = True
                    why = "no recorded stream-wait relation between these kernels"
            if not ok:
                res.bad("sync-discipline", f"{tag}: synchronisation edge does not run from a kernel's end to the end of the host call / start "
                        f"of the kernel that waited for it: {desc} ({se.cat}/{se.name} stream {se.stream} -> {de.cat}/{de.name}; {why})")
        else:
            res.bad("edge-type", f"{tag}: unknown edge type {t}")
    w0, w1 = A.win
    for e in exp.clipped_host:
        if e.cat == "cuda_sync":
            H = byid.get(v.link.get(e.id, -1))
            if H is not None and not (w0 <= H.ts <= w1):
                res.counters["sync_event_inside_window_host_call_outside"] += 1
    res.counters["expected_host_chain_edges"] += len(exp.span_edges)
    res.counters["host_chain_edges_present"] += len(seen_chain)
    if len({e.tid for e in exp.analysed if e.stream == -1}) > 1:
        res.counters["multi_thread_graphs"] += 1
    return types


def _same_graph_but_for_zero_weight_launch_edges(A, res) -> None:  # noqa: ANN001
    """The option CRITICAL_PATH_ADD_ZERO_WEIGHT_LAUNCH_EDGE only *adds* zero-weight launch edges where a kernel has no launch-delay
    edge: analysing the same window again with the option off must give the same nodes and the same edges with the same weights,
    less exactly those additions."""
    from hv.mon import cplog
    cplog.take()
    with core.env(CRITICAL_PATH_ADD_ZERO_WEIGHT_LAUNCH_EDGE=None):
        ok, out = drv.guard(res, "critical_path_analysis (option off)", A.ta.critical_path_analysis, A.rank, A.annotation, A.instance)
    cplog.take()
    if not ok or not isinstance(out, tuple):
        return
    g0, g1 = out[0], A.graph
    tag = f"window={A.annotation!r}/{A.instance} rank={A.rank}"

    def table(g):  # noqa: ANN001
        nl = g.node_list
        return {((int(nl[u].ev_idx), bool(nl[u].is_start)), (int(nl[v_].ev_idx), bool(nl[v_].is_start))): (d["object"].type.value, d["weight"], d["object"].weight)
                for u, v_, d in g.edges(data=True)}
    t0, t1 = table(g0), table(g1)
    res.counters["graphs_compared_with_option_off"] += 1
    changed = {k: (t0[k], t1[k]) for k in t0 if k in t1 and t0[k] != t1[k]}
    lost = [k for k in t0 if k not in t1]
    extra = {k: t1[k] for k in t1 if k not in t0}
    if changed:
        res.bad("zero-weight-option-changes-edges", f"{tag}: edges that differ between option off and on (edge: off, on): {list(changed.items())[:3]}")
    if lost:
        res.bad("zero-weight-option-loses-edges", f"{tag}: edges present with the option off but absent with it on: {lost[:3]}")
    bad_extra = {k: x for k, x in extra.items() if not (x[0] == refcp.T_LAUNCH and x[1] == 0 and x[2] == 0)}
    if bad_extra:
        res.bad("zero-weight-option-adds-other-edges", f"{tag}: the option added edges that are not zero-weight launch edges: {list(bad_extra.items())[:3]}")
    res.counters["zero_weight_launch_edges_added_by_option"] += len(extra)


def run_case(case: Dict[str, Any], ctx: Any) -> core.CaseResult:
    res = core.CaseResult()
    nontrivial = False
    n = 0
    for A in cpdrv.analyse(case, ctx, res):
        n += 1
        types = check_graph(A, res, case["truth"][str(A.rank)])
        if len(types) >= 3 and types.get(refcp.T_SYNC, 0) >= 1:
            nontrivial = True
        for site in {l[6] for l in A.log}:
            ctx.notes.setdefault("edge_adding_sites", [])
            if site not in ctx.notes["edge_adding_sites"]:
                ctx.notes["edge_adding_sites"].append(site)
        if A.zero_weight and not res.violations:
            _same_graph_but_for_zero_weight_launch_edges(A, res)
        if res.sample is None:
            res.sample = {"window": [A.annotation, str(A.instance)], "nodes": len(A.graph.node_list), "edges": A.graph.number_of_edges(),
                          "edge_types": types, "zero_weight_flag": A.zero_weight, "threads": len({e.tid for e in A.exp.analysed if e.stream == -1}),
                          "first_log_entries": [list(x[:7]) for x in A.log[:5]]}
    res.nontrivial = nontrivial
    res.trivial_reason = "fewer than 3 edge types or no sync edge"
    res.key = core.digest([case["files"], case["win_seed"], case["zero_weight"]])
    return res
