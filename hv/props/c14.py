"""C14 — queue-length and memory-bandwidth counters are exact step functions."""
from __future__ import annotations

import collections
import gzip
import json
import os
from typing import Any, Dict, List

from hv import core, drv, gen_sim, wf
from hv.ref import load as refload
from hv.ref import raw

ID = "C14"
RULE = ("G-sim traces under heavy equal-timestamp pressure (tight mode: kernel start == launch start, several launches and starts "
        "at one instant, kernels listed before their launch in the file), 1-4 streams, driver-API and memcpy/memset launches, several "
        "copy types with dyadic and non-dyadic bandwidths, zero-length copies, dropped launches/kernels, 1-3 ranks and rank subsets; "
        "the launch/start event log of linked pairs is rebuilt from raw events and the series returned by "
        "get_queue_length_time_series / get_memory_bw_time_series are checked as step functions at every instant (value after the "
        "last row of the instant, every row >= 0, final 0, two rows per pair carrying the device partner's pid/tid/stream); the "
        "*_with_counters file must reproduce both series at unshifted timestamps. Non-trivial: >= 1 instant on a stream that "
        "carries both a launch and a start, or >= 2 copies of one type overlapping. Distinct = hash of files + ranks.")
ASSUMPTIONS = ["well-formed + causally consistent regime (no activity starts before its launch call)",
               "launch names as documented in get_runtime_launch_events_query", "float tolerance 1e-9 relative for bandwidth sums"]
FLOAT_KEYS = ["files"]          # fractional-time-unit workload class (hv/shard.py)
PLAN = {"quick": {"shards": 16, "cases": 640, "timeout": 900}, "thorough": {"shards": 16, "cases": 8000, "timeout": 3400}}
FLOORS = {"quick": {"distinct_nontrivial": 100, "queue_rows": 6000, "tied_instants": 300, "bw_rows": 1500, "counter_files": 150, "second_or_later_counter_file_request": 150,
                    "counter_events_checked": 3000, "streams_judged": 500},
          "thorough": {"distinct_nontrivial": 2000, "queue_rows": 120000, "tied_instants": 6000, "bw_rows": 30000, "counter_files": 3000, "second_or_later_counter_file_request": 3000,
                       "counter_events_checked": 60000, "streams_judged": 10000}}
LAUNCH = {"cudaLaunchKernel", "cudaLaunchKernelExC", "cuLaunchKernel", "cudaMemcpyAsync", "cudaMemsetAsync",
          "runFunction - job_prep_and_submit_for_execution", "hipLaunchKernel", "hipExtModuleLaunchKernel", "hipMemsetAsync", "hipMemcpyAsync",
          "hipMemcpyWithStream"}


def mem_key(name: str):
    import re
    if not re.match(r"(^Memcpy)|(^Memset)|(^dma)", name) or re.match(r"^nccl.*Kernel", name):
        return None
    if name[:6] == "Memset":
        return "Memset"
    if name[:6] != "Memcpy":
        return "Memcpy Unknown"
    return name[:11]


def gen_case(rnd, tier: str, i: Any) -> Dict[str, Any]:
    n_ranks = rnd.choice([1, 1, 2, 3])
    first_step = gen_sim.pick_first_step(rnd)
    n_steps = rnd.choice([0, 1, 2, 3])
    files = {}
    for r in range(n_ranks):
        p = gen_sim.random_params(rnd, tier, rank=r, first_step=first_step, n_steps=n_steps, tight=rnd.random() < 0.6,
                                  file_order=rnd.choice(["time", "grouped", "shuffled"]), p_sync=rnd.choice([0.0, 0.1]), p_event=0.0)
        tr = gen_sim.gen_trace(rnd, **p)
        # non-dyadic bandwidths and a few zero-length copies
        for e in tr["traceEvents"]:
            if e.get("cat") in ("gpu_memcpy", "gpu_memset"):
                if rnd.random() < 0.5:
                    e["args"]["memory bandwidth (GB/s)"] = rnd.choice([0.1, 3.3, 7.77, 0.003, 123.456])
        if rnd.random() < 0.3:
            # copies whose record carries the size but no bandwidth, or a bandwidth of exactly 0: the series is the sum of the
            # *recorded* bandwidths
            for e in tr["traceEvents"]:
                if e.get("cat") in ("gpu_memcpy", "gpu_memset") and rnd.random() < 0.4:
                    e["args"]["bytes"] = rnd.choice([1, 4096, 1 << 20])
                    if rnd.random() < 0.5:
                        e["args"].pop("memory bandwidth (GB/s)", None)
                    else:
                        e["args"]["memory bandwidth (GB/s)"] = 0.0
        if rnd.random() < 0.25:
            # one host process driving two devices: the copies of one stream run on device 1 (the bandwidth of a copy type is the sum over
            # all copies of the rank that are active, whichever device carries them)
            sts = sorted({e["args"]["stream"] for e in tr["traceEvents"] if e.get("cat") in ("gpu_memcpy", "gpu_memset") and isinstance(e.get("args"), dict) and "stream" in e["args"]})
            if len(sts) >= 2:
                s1 = rnd.choice(sts)
                for e in tr["traceEvents"]:
                    if e.get("cat") in ("gpu_memcpy", "gpu_memset") and isinstance(e.get("args"), dict) and e["args"].get("stream") == s1:
                        e["pid"] = 1
                        e["args"]["device"] = 1
        if rnd.random() < 0.25:
            # copy types beyond the three everyday ones: peer-to-peer, host-to-host (each type has a series of its own)
            for e in tr["traceEvents"]:
                if e.get("cat") == "gpu_memcpy" and rnd.random() < 0.4:
                    e["name"] = rnd.choice(["Memcpy PtoP (Device -> Device)", "Memcpy HtoH (Pageable -> Pinned)", "Memcpy PtoP (Device -> Device)"])
        if rnd.random() < 0.25:
            # the launch vocabulary of a ROCm / MTIA trace (Kineto files them under cuda_runtime as well)
            ren = {"cudaLaunchKernel": ["hipLaunchKernel", "hipExtModuleLaunchKernel", "runFunction - job_prep_and_submit_for_execution"],
                   "cudaLaunchKernelExC": ["hipExtModuleLaunchKernel"], "cuLaunchKernel": ["hipLaunchKernel"],
                   "cudaMemcpyAsync": ["hipMemcpyAsync", "hipMemcpyWithStream", "hipMemcpyWithStream"], "cudaMemsetAsync": ["hipMemsetAsync"]}
            for k, e in enumerate(tr["traceEvents"]):
                if k > 0 and e.get("ph") == "X" and e.get("name") in ren:
                    e["name"] = rnd.choice(ren[e["name"]])
        gen_sim.drop_events(rnd, tr, p_launch=rnd.choice([0, 0, 0.1]), p_kernel=rnd.choice([0, 0, 0.1]))
        if rnd.random() < 0.3:
            # copies / memsets recorded without a correlation id (their launch was not traced at all): they still move bytes
            for e in tr["traceEvents"]:
                if e.get("cat") in ("gpu_memcpy", "gpu_memset") and rnd.random() < 0.4:
                    e["args"].pop("correlation", None)
        files[f"rank{r}.json" + (".gz" if rnd.random() < 0.3 else "")] = tr
    ranks = sorted(rnd.sample(range(n_ranks), rnd.randint(1, n_ranks)))
    file_requests, file_seed = rnd.choice([1, 1, 2, 3]), rnd.randrange(10 ** 6)
    return {"files": files, "ranks": ranks, "file_requests": file_requests, "file_seed": file_seed}


def run_case(case: Dict[str, Any], ctx: Any) -> core.CaseResult:
    res = core.CaseResult()
    models, fnames = {}, {}
    for fn, tr in case["files"].items():
        m = raw.model(tr["traceEvents"])
        why = wf.well_formed(m, tr["traceEvents"]) or wf.causal(m)
        if why:
            res.discarded, res.discard_reason = True, "out of regime: " + why.split(":")[0][:50]
            return res
        models[tr["distributedInfo"]["rank"]] = m
        fnames[tr["distributedInfo"]["rank"]] = fn
    ld = refload.loaded(models, False)
    ranks = case["ranks"]
    d = ctx.scratch.new("c14")
    try:
        core.write_trace_files(d, case["files"])
        ok, ta = drv.guard(res, "TraceAnalysis(load)", drv.new_analysis, d)
        if not ok:
            return res
        ok, ql = drv.guard(res, "get_queue_length_time_series", ta.get_queue_length_time_series, ranks)
        ok2, bw = drv.guard(res, "get_memory_bw_time_series", ta.get_memory_bw_time_series, ranks)
        if not (ok and ok2):
            return res
        nontrivial = False
        exp_q_rows: Dict[int, List[tuple]] = {}
        exp_bw_present: Dict[int, bool] = {}
        for r in ranks:
            kept = ld.kept[r]
            link = raw.link_oracle(models[r])
            byid = {e.id: e for e in kept}
            pairs = []
            for L in kept:
                if L.stream == -1 and L.name in LAUNCH and link[L.id] > 0 and link[L.id] in byid:
                    pairs.append((L, byid[link[L.id]]))
            # ---------------- queue length
            if not pairs:
                if r in ql:
                    res.bad("queue-series-absent", f"rank {r}: no linked launch pair but a queue-length series of {len(ql[r])} rows")
            elif r not in ql:
                res.bad("queue-series-present", f"rank {r}: {len(pairs)} linked launch pairs but no queue-length series")
            else:
                df = ql[r]
                rows = list(zip(df.index.tolist(), df["ts"].tolist(), df["pid"].tolist(), df["tid"].tolist(), df["stream"].tolist(), df["queue_length"].tolist()))
                res.counters["queue_rows"] += len(rows)
                exp_rows = collections.Counter()
                for L, D in pairs:
                    exp_rows[(L.id, L.ts - ld.min_ts, D.pid, D.tid, D.stream)] += 1
                    exp_rows[(D.id, D.ts - ld.min_ts, D.pid, D.tid, D.stream)] += 1
                got_rows = collections.Counter((i, ts, pid, tid, s) for i, ts, pid, tid, s, _ in rows)
                if got_rows != exp_rows:
                    res.bad("queue-rows", f"rank {r}: rows (event, ts, pid, tid, stream) unexpected {list((got_rows - exp_rows).items())[:3]}; "
                            f"missing {list((exp_rows - got_rows).items())[:3]}")
                per_stream = collections.defaultdict(list)
                for i, ts, pid, tid, s, q in rows:
                    per_stream[s].append((ts, q, i))
                evs = collections.defaultdict(list)
                for L, D in pairs:
                    evs[D.stream].append((L.ts - ld.min_ts, +1))
                    evs[D.stream].append((D.ts - ld.min_ts, -1))
                for s, series in per_stream.items():
                    res.counters["streams_judged"] += 1
                    neg = [(ts, q, i) for ts, q, i in series if q < 0]
                    if neg:
                        res.bad("queue-non-negative", f"rank {r} stream {s}: queue length {neg[0][1]} at ts {neg[0][0]} (row of event {neg[0][2]}); "
                                f"events at that instant {[x for x in evs[s] if x[0] == neg[0][0]]}", tie=True)
                    if [x[0] for x in series] != sorted(x[0] for x in series):
                        res.bad("queue-time-order", f"rank {r} stream {s}: series rows are not in time order")
                    last_at = {}
                    for ts, q, _ in series:
                        last_at[ts] = q
                    instants = sorted({t for t, _ in evs[s]})
                    for t in instants:
                        want = sum(dl for tt, dl in evs[s] if tt <= t)
                        kinds = {dl for tt, dl in evs[s] if tt == t}
                        if len(kinds) == 2:
                            res.counters["tied_instants"] += 1
                            nontrivial = True
                        if last_at.get(t) != want:
                            res.bad("queue-step-function", f"rank {r} stream {s}: after ts {t} the series says {last_at.get(t)}, launches issued "
                                    f"minus activities started = {want}")
                            break
                    if series and series[-1][1] != 0:
                        res.bad("queue-ends-at-zero", f"rank {r} stream {s}: series ends at {series[-1][1]}")
            # ---------------- memory bandwidth
            copies = [(e, mem_key(e.name)) for e in kept if e.stream != -1 and mem_key(e.name)]
            exp_bw_present[r] = bool(copies)
            if copies and r not in bw:
                res.bad("bw-series-present", f"rank {r}: {len(copies)} copies but no bandwidth series")
            if r in bw:
                df = bw[r]
                rows = list(zip(df["ts"].tolist(), df["pid"].tolist(), df["name"].tolist(), df["memory_bw_gbps"].tolist()))
                res.counters["bw_rows"] += len(rows)
                if len(rows) != 2 * len(copies):
                    res.bad("bw-rows", f"rank {r}: {len(rows)} bandwidth rows for {len(copies)} copies")
                bykey = collections.defaultdict(list)
                for e, k in copies:
                    a = e.ts - ld.min_ts
                    bykey[k].append((a, a + (e.dur if e.dur != 0 else 1), float(e.args.get("memory bandwidth (GB/s)", 0.0))))
                last_at = {}
                for ts, pid, name, v in rows:
                    last_at[(name, ts)] = v
                    scale = max(1.0, sum(b for _, _, b in bykey.get(name, [])))
                    if v < -1e-9 * scale:
                        res.bad("bw-non-negative", f"rank {r} {name}: bandwidth {v} at ts {ts}")
                for k, ivs in bykey.items():
                    if any(a1 < b2 and a2 < b1 for i, (a1, b1, _) in enumerate(ivs) for (a2, b2, _) in ivs[i + 1:]):
                        nontrivial = True
                    for t in sorted({x for a, b, _ in ivs for x in (a, b)}):
                        want = sum(w for a, b, w in ivs if a <= t < b)
                        got = last_at.get((k, t))
                        scale = max(1.0, sum(w for _, _, w in ivs))
                        if got is None or abs(got - want) > 1e-9 * scale:
                            res.bad("bw-step-function", f"rank {r} {k}: after ts {t} the series says {got}, active copies sum to {want}")
                            break
        # ---------------- the *_with_counters files: a history of 1-3 requests on the same object (both series, one series,
        # different suffixes); every file holds the source events plus exactly the requested series
        from hta.trace_analysis import TimeSeriesTypes
        hist = core.rng("c14files", case.get("file_seed", 0)).sample(
            [(None, "_with_counters"), (TimeSeriesTypes.QUEUE_LENGTH, "_ql"), (TimeSeriesTypes.MEMCPY_BANDWIDTH, "_bw"),
             (TimeSeriesTypes.QUEUE_LENGTH | TimeSeriesTypes.MEMCPY_BANDWIDTH, "_both"), (None, "_with_counters"),
             # other series under a suffix that an earlier request may have used: the file of the latest request counts (files are
             # left where they were written, as a user leaves them)
             (TimeSeriesTypes.QUEUE_LENGTH, "_with_counters"), (TimeSeriesTypes.MEMCPY_BANDWIDTH, "_with_counters"), (TimeSeriesTypes.MEMCPY_BANDWIDTH, "_ql")],
            k=case.get("file_requests", 1))
        seen_suffix = set()
        for n_call, (which, suffix) in enumerate(hist):
            want_ql = which is None or TimeSeriesTypes.QUEUE_LENGTH in which
            want_bw = which is None or TimeSeriesTypes.MEMCPY_BANDWIDTH in which
            stamp = {}
            for r in ranks:
                q = os.path.join(d, fnames[r]).replace(".json", f"{suffix}.json")
                stamp[r] = os.stat(q).st_mtime_ns if os.path.exists(q) else None
            ok, _ = drv.guard(res, "generate_trace_with_counters", ta.generate_trace_with_counters, which, ranks, suffix)
            if not ok:
                break
            if n_call >= 1:
                res.counters["second_or_later_counter_file_request"] += 1
            if suffix in seen_suffix:
                res.counters["requests_rewriting_a_file_of_an_earlier_request"] += 1
            seen_suffix.add(suffix)
            for r in ranks:
                src = os.path.join(d, fnames[r])
                outp = src.replace(".json", f"{suffix}.json")
                has_series = (want_ql and r in ql) or (want_bw and r in bw)
                if not has_series and stamp[r] is not None and os.path.exists(outp) and os.stat(outp).st_mtime_ns == stamp[r]:
                    continue              # nothing to write for this rank; the file lying there is an earlier request's
                if has_series and stamp[r] is not None and os.path.exists(outp) and os.stat(outp).st_mtime_ns == stamp[r]:
                    res.bad("counters-file-written", f"rank {r}: {os.path.basename(outp)} still is the file of an earlier request (not rewritten for {which})")
                    continue
                if not os.path.exists(outp):
                    if has_series:
                        res.bad("counters-file-written", f"rank {r}: {os.path.basename(outp)} was not written")
                    continue
                res.counters["counter_files"] += 1
                # read the way the name says, as the library's own readers do (.gz: gzip, otherwise JSON text)
                try:
                    with (gzip.open(outp, "rt", encoding="utf-8") if outp.endswith(".gz") else open(outp, "r", encoding="utf-8")) as fh:
                        out = json.loads(fh.read())
                except (UnicodeDecodeError, OSError, ValueError, EOFError) as e:
                    res.bad("counters-file-reads-as-named", f"rank {r}: {os.path.basename(outp)} cannot be read the way its name says ({type(e).__name__})")
                    continue
                n_src = len(case["files"][fnames[r]]["traceEvents"])
                extra = out["traceEvents"][n_src:]
                exp_c = collections.Counter()
                if want_ql and r in ql:
                    for ts, pid, s, q in zip(ql[r]["ts"].tolist(), ql[r]["pid"].tolist(), (ql[r]["id"] if "id" in ql[r].columns else ql[r]["stream"]).tolist(),
                                             ql[r]["queue_length"].tolist()):
                        exp_c[("Queue Length", ts + ld.min_ts, pid, s, "Queue Length", float(q))] += 1
                if want_bw and r in bw:
                    for ts, pid, nm, v in zip(bw[r]["ts"].tolist(), bw[r]["pid"].tolist(), bw[r]["name"].tolist(), bw[r]["memory_bw_gbps"].tolist()):
                        exp_c[(nm, ts + ld.min_ts, pid, None, "Memcpy BW", float(v))] += 1
                got_c = collections.Counter()
                for e in extra:
                    res.counters["counter_events_checked"] += 1
                    if e.get("ph") != "C" or not isinstance(e.get("args"), dict) or len(e["args"]) != 1:
                        res.bad("counter-event-shape", f"rank {r}: appended event is not a counter event: {core.short(e, 200)}")
                        break
                    (k, v), = e["args"].items()
                    got_c[(e.get("name"), e.get("ts"), e.get("pid"), e.get("id"), k, float(v))] += 1
                if got_c == exp_c:
                    # within one counter track the events follow the series' order: at an instant with several events the last one
                    # is the value the track shows
                    exp_seq, got_seq = collections.defaultdict(list), collections.defaultdict(list)
                    if want_ql and r in ql:
                        for ts, pid, s, q in zip(ql[r]["ts"].tolist(), ql[r]["pid"].tolist(), (ql[r]["id"] if "id" in ql[r].columns else ql[r]["stream"]).tolist(),
                                                 ql[r]["queue_length"].tolist()):
                            exp_seq[("Queue Length", pid, s)].append((ts + ld.min_ts, float(q)))
                    if want_bw and r in bw:
                        for ts, pid, nm, v in zip(bw[r]["ts"].tolist(), bw[r]["pid"].tolist(), bw[r]["name"].tolist(), bw[r]["memory_bw_gbps"].tolist()):
                            exp_seq[(nm, pid, None)].append((ts + ld.min_ts, float(v)))
                    for e in extra:
                        (k, v), = e["args"].items()
                        got_seq[(e.get("name"), e.get("pid"), e.get("id"))].append((e.get("ts"), float(v)))
                    # a stable re-ordering by time is fine; the order of the events of one instant is not free
                    def _final(seq):  # noqa: ANN001
                        out = {}
                        for ts, v in seq:
                            out[ts] = v
                        return out
                    badtr = [(trk, [(ts, _final(got_seq[trk]).get(ts), v) for ts, v in _final(exp_seq[trk]).items() if _final(got_seq[trk]).get(ts) != v][:3])
                             for trk in exp_seq if _final(got_seq[trk]) != _final(exp_seq[trk])]
                    res.counters["counter_tracks_order_checked"] += len(exp_seq)
                    if badtr:
                        res.bad("counters-file-order", f"rank {r}, request #{n_call + 1}: within a counter track the last event of an instant differs from the series' value "
                                f"after that instant (track, [(ts, file, series)]): {badtr[:2]}")
                if got_c != exp_c:
                    res.bad("counters-file-series", f"rank {r}, request #{n_call + 1} ({'both' if which is None else which}, suffix {suffix!r}): counter events differ from "
                            f"the requested series at unshifted timestamps (min_ts {ld.min_ts}): {sum(got_c.values())} events in the file, {sum(exp_c.values())} expected; "
                            f"unexpected {list((got_c - exp_c).items())[:3]}; missing {list((exp_c - got_c).items())[:3]}")
        res.nontrivial = nontrivial
        res.trivial_reason = "no instant with both a launch and a start on one stream, no overlapping copies"
        res.key = core.digest([case["files"], ranks])
        r0 = ranks[0]
        res.sample = {"ranks": ranks, "queue_rows_rank": None if r0 not in ql else ql[r0].head(4).to_dict("records"),
                      "bw_rows_rank": None if r0 not in bw else bw[r0].head(3).to_dict("records")}
    finally:
        ctx.scratch.drop(d)
    return res
