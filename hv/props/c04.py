"""C04 — temporal breakdown is an exact partition of the GPU activity span."""
from __future__ import annotations

from typing import Any, Dict

from hv import core, drv, gen_int
from hv.mon import contracts
from hv.ref import intervals as iv
from hv.ref import raw

ID = "C04"
RULE = ("G-int: per rank 1-40 device activities on 1-4 streams with start/end drawn from a range of 6..1000 so that overlap across "
        "streams, nesting, touching, identical and zero-length spans are the norm; names of all four kernel types; 1-4 ranks; epoch "
        "offsets 0..1.7e15; shuffled file order; oracle = integer sweep over distinct endpoints; plus an icontract post-condition "
        "on merge_kernel_intervals (sorted, pairwise disjoint, same union measure, covers every input interval). Non-trivial: >= 2 "
        "activities that overlap or touch. Distinct = hash of the files.")
ASSUMPTIONS = ["kernel_time > 0 (a rank whose activities all have zero length at one instant divides by zero: out of regime)",
               "device activity = complete event whose stream is not -1; type by the documented name rules (hv/ref/intervals.py)"]
FLOAT_KEYS = ["files"]          # fractional-time-unit workload class (hv/shard.py)
PLAN = {"quick": {"shards": 16, "cases": 960, "timeout": 600}, "thorough": {"shards": 16, "cases": 10000, "timeout": 3000}}
FLOORS = {"quick": {"distinct_nontrivial": 150, "ranks_judged": 700, "merge_kernel_intervals.post": 1400, "with_touching": 150,
                    "with_identical": 100, "with_zero_length": 100, "with_nested": 150},
          "thorough": {"distinct_nontrivial": 3000, "ranks_judged": 14000, "merge_kernel_intervals.post": 28000, "with_touching": 3000,
                       "with_identical": 2000, "with_zero_length": 2000, "with_nested": 3000}}


def install_merge_contract(ctx: Any) -> None:
    import hta.utils.utils as U
    import hta.analyzers.breakdown_analysis as BA
    import hta.analyzers.communication_analysis as CA

    def snap(kernel_df):  # noqa: ANN001
        return list(zip(kernel_df["ts"].tolist(), (kernel_df["ts"] + kernel_df["dur"]).tolist()))

    def post(result, OLD):  # noqa: ANN001,N803
        out = list(zip(result["ts"].tolist(), result["end"].tolist()))
        if out != sorted(out):
            return f"merged intervals are not sorted by start: {out[:6]}"
        for (a, b), (c, d) in zip(out, out[1:]):
            if c <= b:
                return f"merged intervals [{a},{b}] and [{c},{d}] are not disjoint"
        if any(b < a for a, b in out):
            return "merged interval with end < start"
        if iv.measure(out) != iv.measure(OLD.ivs):
            return f"union measure changed by merging: {iv.measure(OLD.ivs)} -> {iv.measure(out)} (input {sorted(OLD.ivs)[:8]}, output {out[:8]})"
        for a, b in OLD.ivs:
            if not any(c <= a and b <= d for c, d in out):
                return f"input interval [{a},{b}] is not covered by a merged interval {out[:8]}"
        return None

    contracts.attach(U, "merge_kernel_intervals", "merge_kernel_intervals", ctx, post=post, snaps={"ivs": snap})
    # modules that did `from hta.utils.utils import merge_kernel_intervals` hold their own reference
    BA.merge_kernel_intervals = U.merge_kernel_intervals
    CA.merge_kernel_intervals = U.merge_kernel_intervals


def setup(ctx: Any) -> None:
    install_merge_contract(ctx)


PRE_CALLS = ["get_gpu_kernel_breakdown", "get_comm_comp_overlap", "get_idle_time_breakdown", "get_memory_bw_time_series", "get_temporal_breakdown",
             "get_queue_length_time_series", "get_cuda_kernel_launch_stats", "get_gpu_kernels_with_user_annotations", "critical_path_analysis"]


def pre_call(ta, name: str, ranks) -> None:  # noqa: ANN001
    """Another read-only analysis on the same object first; its own result is judged by its own property, here only what it
    leaves behind matters, so its exceptions are ignored."""
    try:
        if name in ("get_memory_bw_time_series", "get_queue_length_time_series"):
            getattr(ta, name)(ranks)
        elif name == "get_idle_time_breakdown":
            ta.get_idle_time_breakdown(ranks=ranks, visualize=False)
        elif name == "get_cuda_kernel_launch_stats":
            ta.get_cuda_kernel_launch_stats(ranks=ranks, visualize=False)
        elif name == "get_gpu_kernel_breakdown":
            ta.get_gpu_kernel_breakdown(visualize=False, include_memory_kernels=True)
        elif name == "get_gpu_kernels_with_user_annotations":
            for r in ranks:
                ta.get_gpu_kernels_with_user_annotations(r)
        elif name == "critical_path_analysis":
            # a window that covers only part of the rank's activity, if the trace has an annotation to name it
            st = ta.t.symbol_table.get_sym_table()
            for ann in ("fwd", "bwd", "opt", "loss", "data", "ProfilerStep"):
                if any(isinstance(x, str) and x.startswith(ann) for x in st):
                    ta.critical_path_analysis(rank=ranks[0], annotation=ann, instance_id=0)
                    break
        else:
            getattr(ta, name)(visualize=False)
    except Exception:  # noqa: BLE001
        pass


def gen_case(rnd, tier: str, i: Any) -> Dict[str, Any]:
    c = gen_int.gen_case(rnd, tier, annotations=rnd.random() < 0.5)
    c["pre_calls"] = rnd.sample(PRE_CALLS, rnd.choice([0, 0, 1, 2, 3]))
    return c


def fixed_cases(tier: str):
    from hv import samples
    return samples.sample_cases(tier)


def activities(tr: Dict[str, Any]):
    return [e for e in raw.model(tr["traceEvents"]) if e.stream != -1]


def kept_activities(case: Dict[str, Any], inc_last: bool = False) -> Dict[int, list]:
    """rank -> device activities that survive loading (the documented trimming of the trailing profiler step, C12; a no-op
    for traces with fewer than two steps such as G-int's)."""
    from hv.ref import load as refload

    models = {tr["distributedInfo"]["rank"]: raw.model(tr["traceEvents"]) for tr in case["files"].values()}
    ld = refload.loaded(models, inc_last)
    return {r: [e for e in ld.kept[r] if e.stream != -1] for r in models}


def tie_stats(acts, res: core.CaseResult) -> bool:  # noqa: ANN001
    sp = [(e.ts, e.end) for e in acts]
    touching = any(a[1] == b[0] or b[1] == a[0] for i, a in enumerate(sp) for b in sp[i + 1:])
    ident = len(set(sp)) != len(sp)
    zero = any(a == b for a, b in sp)
    nested = any((a[0] <= b[0] and b[1] <= a[1] and a != b) or (b[0] <= a[0] and a[1] <= b[1] and a != b) for i, a in enumerate(sp) for b in sp[i + 1:])
    overlap = any(a[0] < b[1] and b[0] < a[1] for i, a in enumerate(sp) for b in sp[i + 1:])
    for k, v in (("with_touching", touching), ("with_identical", ident), ("with_zero_length", zero), ("with_nested", nested)):
        if v:
            res.counters[k] += 1
    return touching or overlap or ident


def run_case(case: Dict[str, Any], ctx: Any) -> core.CaseResult:
    res = core.CaseResult()
    per_rank = kept_activities(case)
    for r, acts in per_rank.items():
        if not acts or max(e.end for e in acts) == min(e.ts for e in acts):
            res.discarded, res.discard_reason = True, "kernel_time == 0 on a rank"
            return res
    d = ctx.scratch.new("c04")
    try:
        core.write_trace_files(d, case["files"])
        ok, ta = drv.guard(res, "TraceAnalysis(load)", drv.new_analysis, d)
        if not ok:
            return res
        for nm in case.get("pre_calls", []):
            pre_call(ta, nm, sorted(per_rank))
        if case.get("pre_calls"):
            res.counters["calls_after_history"] += 1
        ok, tb = drv.guard(res, "get_temporal_breakdown", ta.get_temporal_breakdown, visualize=False)
        if not ok:
            return res
        nontrivial = False
        for r, acts in per_rank.items():
            res.counters["ranks_judged"] += 1
            if tie_stats(acts, res):
                nontrivial = True
            sp = [(e.ts, e.end) for e in acts]
            span = max(b for _, b in sp) - min(a for a, _ in sp)
            busy = iv.measure(sp)
            comp = iv.measure([(e.ts, e.end) for e in acts if iv.kernel_type(e.name) == "COMPUTATION"])
            exp = {"idle_time(us)": span - busy, "compute_time(us)": comp, "non_compute_time(us)": busy - comp, "kernel_time(us)": span}
            rows = tb[tb["rank"] == r]
            if len(rows) != 1:
                res.bad("one-row-per-rank", f"rank {r}: {len(rows)} rows in the temporal breakdown")
                continue
            row = rows.iloc[0]
            got = {k: row[k] for k in exp}
            if any(float(got[k]) != float(exp[k]) for k in exp):
                res.bad("partition", f"rank {r}: temporal breakdown {dict((k, float(v)) for k, v in got.items())} != {exp} "
                        f"(activities {sorted((e.ts, e.end, iv.kernel_type(e.name)[:4], e.stream) for e in acts)[:12]})", rank=r)
            if min(float(v) for v in got.values()) < 0:
                res.bad("non-negative", f"rank {r}: negative part in {got}")
            if float(got["idle_time(us)"]) + float(got["compute_time(us)"]) + float(got["non_compute_time(us)"]) != float(got["kernel_time(us)"]):
                res.bad("parts-sum", f"rank {r}: parts do not add up to kernel_time: {got}")
            for part, col in (("idle_time(us)", "idle_time_pctg"), ("compute_time(us)", "compute_time_pctg"), ("non_compute_time(us)", "non_compute_time_pctg")):
                want = round(100 * exp[part] / span, 2)
                if abs(float(row[col]) - 100 * exp[part] / span) > 0.005 + 1e-9:       # two decimals; the library rounds the binary product
                    res.bad("percentage", f"rank {r}: {col}={row[col]} but {part}/kernel_time = {exp[part]}/{span} -> {want}")
        res.nontrivial = nontrivial
        res.trivial_reason = "no overlapping or touching activities"
        res.key = core.digest(case.get("sample") or case["files"])
        if case.get("sample"):
            res.counters["real_sample_traces"] += 1
        a0 = next(iter(per_rank.values()))
        res.sample = {"ranks": len(per_rank), "activities_rank0[ts,end,type,stream]": sorted((e.ts, e.end, iv.kernel_type(e.name), e.stream) for e in a0)[:10],
                      "breakdown_rank0": {k: float(v) for k, v in tb.iloc[0].to_dict().items()}}
    finally:
        ctx.scratch.drop(d)
    return res
