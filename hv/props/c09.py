"""C09 — the reported critical path is a maximum-weight path of the graph (also after re-weighting)."""
from __future__ import annotations

import os
from typing import Any, Dict, List

from hv import core, cpdrv, drv
from hv.mon import contracts
from hv.ref import cp as refcp

ID = "C09"
RULE = ("graphs built by the real analysis from C08's workload (G-sim, all window kinds, launch-edge flag on/off); for each graph "
        "the reported path is checked against an own topological-order DP longest path over the graph's weight attributes, then "
        "3 (quick) / 8 (thorough) random re-weightings (scale, zero, inflate random edge subsets, making a non-critical branch "
        "dominant, and total-weight-conserving swaps / moves) each followed by CPGraph.critical_path() and the same checks. Non-trivial: graph with >= 2 distinct maximal paths "
        "candidates (>= 1 node with out-degree >= 2) and >= 10 edges. Distinct = hash of (trace, window, flag).")
ASSUMPTIONS = ["own longest-path DP (hv/ref/cp.py::longest_path) trusted", "graphs come from in-regime traces (see C08)"]
FLOAT_KEYS = ["files"]          # fractional-time-unit workload class (hv/shard.py)
PLAN = {"quick": {"shards": 16, "cases": 480, "timeout": 900}, "thorough": {"shards": 16, "cases": 5000, "timeout": 3400}}
FLOORS = {"quick": {"distinct_nontrivial": 100, "paths_checked": 1500, "reweighted_paths": 1000, "critical_path.post": 1500,
                    "path_changed_after_reweight": 100, "total_conserving_reweights": 300, "paths_rechecked_after_overlay": 150, "paths_checked_on_graphs_restored_after_a_second_save": 100},
          "thorough": {"distinct_nontrivial": 1500, "paths_checked": 40000, "reweighted_paths": 30000, "critical_path.post": 40000,
                       "path_changed_after_reweight": 3000, "total_conserving_reweights": 9000, "paths_rechecked_after_overlay": 3000}}


def setup(ctx: Any) -> None:
    import hta.analyzers.critical_path_analysis as cpa

    def post_cp(self, result):  # noqa: ANN001
        if result is not True:
            return None
        p = self.critical_path_nodes
        for u, v in zip(p, p[1:]):
            if not self.has_edge(u, v):
                return f"critical path step {u}->{v} is not an edge of the graph"
        if len(self.critical_path_edges_set) != len(p) - 1:
            return f"{len(self.critical_path_edges_set)} critical edges for a path of {len(p)} nodes"
        return None

    contracts.attach(cpa.CPGraph, "critical_path", "critical_path", ctx, post=post_cp)


def gen_case(rnd, tier: str, i: Any) -> Dict[str, Any]:
    c = cpdrv.gen_case(rnd, tier, i)
    c["rw_seed"] = rnd.randrange(10 ** 9)
    return c


def check_path(g, res: core.CaseResult, tag: str, makespan, weights=None) -> float:  # noqa: ANN001
    """weights: the weights the caller set before recomputing (what-if); the path is judged against those."""
    nl = g.node_list
    path = list(g.critical_path_nodes)
    res.counters["paths_checked"] += 1
    if weights is not None:
        changed = [(k, weights[k], g.edges[k]["weight"]) for k in weights if g.edges[k]["weight"] != weights[k]][:4]
        if changed:
            res.bad("what-if-weights-kept", f"{tag}: recomputing the path altered edge weights set by the caller (edge, set, now): {changed}")
    edges = [(u, v, (weights[(u, v)] if weights is not None else d["weight"])) for u, v, d in g.edges(data=True)]
    try:
        best, _ = refcp.longest_path(len(nl), edges)
    except ValueError:
        res.bad("acyclic", f"{tag}: graph has a cycle")
        return 0.0
    if len(path) < 2:
        res.bad("path-exists", f"{tag}: critical path has {len(path)} nodes")
        return best
    total = 0
    for u, v in zip(path, path[1:]):
        if not g.has_edge(u, v):
            res.bad("path-connected", f"{tag}: consecutive critical nodes {u}->{v} are not joined by an edge")
            return best
        total += weights[(u, v)] if weights is not None else g.edges[u, v]["weight"]
    if abs(total - best) > 1e-6 * max(1.0, abs(best)):
        res.bad("path-optimal", f"{tag}: reported critical path weighs {total}, but a path of weight {best} exists "
                f"({len(path)} nodes, {len(edges)} edges)", total=total, best=best)
    if makespan is not None and total > makespan + 1e-9:
        res.bad("path-within-makespan", f"{tag}: critical path weight {total} exceeds the makespan {makespan} of the analysed window")
    ev = {int(nl[n].ev_idx) for n in path}
    if {int(x) for x in g.critical_path_events_set} != ev:
        res.bad("critical-events", f"{tag}: critical_path_events_set differs from the events of the path nodes: "
                f"extra {sorted({int(x) for x in g.critical_path_events_set} - ev)[:5]} missing {sorted(ev - {int(x) for x in g.critical_path_events_set})[:5]}")
    on_path = {(u, v) for u, v in zip(path, path[1:])}
    got = {(e.begin, e.end) for e in g.critical_path_edges_set}
    if got != on_path:
        res.bad("critical-edges", f"{tag}: critical_path_edges_set differs from the edges along the path: extra {sorted(got - on_path)[:4]} "
                f"missing {sorted(on_path - got)[:4]}")
    else:
        for e in g.critical_path_edges_set:
            if g.edges[e.begin, e.end]["object"] is not e and g.edges[e.begin, e.end]["object"] != e:
                res.bad("critical-edges", f"{tag}: critical edge object for ({e.begin},{e.end}) is not the graph's edge object")
                break
    return best


def run_case(case: Dict[str, Any], ctx: Any) -> core.CaseResult:
    res = core.CaseResult()
    rnd = core.rng("rw", case["rw_seed"])
    n_rw = 3 if ctx.tier == "quick" else 8
    nontrivial = False
    for A in cpdrv.analyse(case, ctx, res):
        g = A.graph
        tag = f"window={A.annotation!r}/{A.instance} rank={A.rank}"
        if A.ok is not True:
            res.bad("analysis-succeeds", f"{tag}: success={A.ok!r}")
            continue
        ts = [n.ts for n in g.node_list]
        makespan = max(ts) - min(ts) if ts else None
        check_path(g, res, tag, makespan)
        if g.number_of_edges() >= 10 and any(g.out_degree(n) >= 2 for n in g.nodes):
            nontrivial = True
        if res.sample is None:
            res.sample = {"window": [A.annotation, str(A.instance)], "nodes": len(g.node_list), "edges": g.number_of_edges(),
                          "path_len": len(g.critical_path_nodes), "path_weight": sum(e.weight for e in g.critical_path_edges_set),
                          "makespan": makespan}
        if rnd.random() < 0.4:
            # a read-only consumer in between: the overlay is written from the graph; the reported path and sets must still be
            # exact afterwards (and for the what-ifs that follow)
            import os
            out_dir = os.path.join(A.workdir, f"ov_{rnd.randrange(10 ** 6)}")
            oko, _ = drv.guard(res, "overlay_critical_path_analysis", A.ta.overlay_critical_path_analysis, A.rank, g, out_dir,
                               rnd.random() < 0.3, rnd.random() < 0.3)
            if oko:
                res.counters["paths_rechecked_after_overlay"] += 1
                check_path(g, res, f"{tag} after an overlay was written", makespan)
        resave_dir = None
        if rnd.random() < 0.3:
            import os
            resave_dir = os.path.join(A.workdir, f"resave_{rnd.randrange(10 ** 6)}")
            oks, _ = drv.guard(res, "CPGraph.save", g.save, resave_dir)
            if not oks:
                resave_dir = None
        elist = list(g.edges)
        for k in range(n_rw):
            before = list(g.critical_path_nodes)
            mode = rnd.choice(["scale", "zero", "inflate", "offpath", "swap", "move"])
            if mode in ("swap", "move"):
                # total weight is conserved: exchange the weights of two edges, or move an amount from a critical edge to another edge
                onp = list(zip(before, before[1:]))
                a = rnd.choice(onp) if (mode == "move" and onp) else rnd.choice(elist)
                b = rnd.choice(elist)
                wa, wb = g.edges[a]["weight"], g.edges[b]["weight"]
                if mode == "swap":
                    g.edges[a]["weight"], g.edges[b]["weight"] = wb, wa
                else:
                    amt = wa if wa > 0 else 0
                    g.edges[a]["weight"], g.edges[b]["weight"] = wa - amt, wb + amt
                res.counters["total_conserving_reweights"] += 1
            elif mode == "offpath":
                onp = set(zip(before, before[1:]))
                cands = [e for e in elist if e not in onp] or elist
                for (u, v) in rnd.sample(cands, min(len(cands), rnd.randint(1, 4))):
                    g.edges[u, v]["weight"] = g.edges[u, v]["weight"] + rnd.choice([50, 500, 5000])
            else:
                for (u, v) in rnd.sample(elist, max(1, len(elist) // rnd.choice([2, 4, 10]))):
                    w = g.edges[u, v]["weight"]
                    g.edges[u, v]["weight"] = {"scale": w * rnd.choice([2, 3, 0.5]), "zero": 0, "inflate": w + rnd.randint(1, 100)}[mode]
            if all(d["weight"] == 0 for _, _, d in g.edges(data=True)):
                u, v = rnd.choice(elist)            # an all-zero graph is the recorded finding K3; keep the what-if meaningful
                g.edges[u, v]["weight"] = 7
            wset = {(u, v): d["weight"] for u, v, d in g.edges(data=True)}
            ok, r = drv.guard(res, "CPGraph.critical_path (re-weighted)", g.critical_path)
            if not ok:
                ws = [d["weight"] for _, _, d in g.edges(data=True)]
                res.violations[-1].witness.update(n_logged_edges=len(ws), all_logged_weights_zero=bool(ws) and all(w == 0 for w in ws))
                break
            if r is not True:
                res.bad("recompute-succeeds", f"{tag}: critical_path() returned {r!r} after re-weighting ({mode})")
                break
            res.counters["reweighted_paths"] += 1
            if list(g.critical_path_nodes) != before:
                res.counters["path_changed_after_reweight"] += 1
            check_path(g, res, f"{tag} after re-weighting #{k} ({mode})", None, wset)
            if resave_dir is not None and k == 0:
                # the what-if result is saved over the earlier save and read back: the restored graph's reported path must be a
                # maximum-weight path of the restored graph's own edges
                from hta.analyzers.critical_path_analysis import restore_cpgraph
                oks, zp = drv.guard(res, "CPGraph.save (again, same directory)", g.save, resave_dir)
                if oks:
                    okr, rg = drv.guard(res, "restore_cpgraph", restore_cpgraph, zp, A.ta.t, A.rank)
                    if okr:
                        res.counters["paths_checked_on_graphs_restored_after_a_second_save"] += 1
                        check_path(rg, res, f"{tag} restored after the what-if was saved over the first save", None)
                    import shutil
                    shutil.rmtree(os.path.join("/tmp", resave_dir.lstrip("/")), ignore_errors=True)
    res.nontrivial = nontrivial
    res.trivial_reason = "no branching graph with >= 10 edges"
    res.key = core.digest([case["files"], case["win_seed"], case["zero_weight"]])
    return res
