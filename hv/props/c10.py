"""C10 — critical-path breakdown conserves the path weight and attributes it correctly."""
from __future__ import annotations

import collections
import re
from typing import Any, Dict

from hv import gen_sim, core, cpdrv, drv
from hv.ref import cp as refcp

ID = "C10"
RULE = ("graphs from C08's workload biased to deep nesting (max_depth 3-5) so that all four start/end attribution cases occur; for every "
        "critical edge the breakdown row, get_event_attribution_for_edge and the bound_by class are compared with a semantic oracle "
        "(attributed event exists, lies on the thread/stream of the edge's endpoints and covers the edge's time range; "
        "kernel-kernel delay -> preceding kernel; class from stream sign / nccl name rule / delay type) and summary() with per-class "
        "shares. Non-trivial: critical path with >= 3 of the 4 attribution cases or >= 3 bound_by classes. Distinct = hash of "
        "(trace, window, flag).")
ASSUMPTIONS = ["reference hv/ref/cp.py trusted", "in-regime traces only (see C08)", "total path weight 0 is out of regime for the percentage clause"]
FLOAT_KEYS = ["files"]          # fractional-time-unit workload class (hv/shard.py)
PLAN = {"quick": {"shards": 16, "cases": 480, "timeout": 900}, "thorough": {"shards": 16, "cases": 5000, "timeout": 3400}}
FLOORS = {"quick": {"distinct_nontrivial": 60, "breakdowns": 400, "attributed_edges": 4000, "case_start_start": 300, "case_start_end": 300,
                    "case_end_end": 300, "case_end_start": 100, "class_gpu_communication_bound": 20, "class_gpu_kernel_kernel_overhead": 50,
                    "class_gpu_kernel_launch_overhead": 50, "summaries": 400},
          "thorough": {"distinct_nontrivial": 900, "breakdowns": 6000, "attributed_edges": 60000, "case_start_start": 4000, "case_start_end": 4000,
                       "case_end_end": 4000, "case_end_start": 1500, "class_gpu_communication_bound": 300,
                       "class_gpu_kernel_kernel_overhead": 700, "class_gpu_kernel_launch_overhead": 700, "summaries": 6000}}
COMM_RE = re.compile(r"^nccl.*Kernel")


def _short(name: str) -> str:
    """the breakdown classifies the *shortened* name (repository helper, trusted as in C17)"""
    from hta.utils.utils import shorten_name
    return shorten_name(name)


def gen_case(rnd, tier: str, i: Any) -> Dict[str, Any]:
    over = {}
    if rnd.random() < 0.35:
        # annotations (events without graph nodes) nested in one another around operators, inside operators
        over.update(annotation_nest=True, p_annotation=0.45, max_depth=rnd.choice([4, 5, 6]))
    if rnd.random() < 0.3:
        # operators whose shortened name is the empty string (python frames such as '<built-in method run_backward of ...>'): they are
        # host events like any other (cpu_bound)
        over["ops_pool"] = rnd.sample(gen_sim.OPS, 3) + rnd.sample(["<built-in method run_backward of torch._C._EngineBase object at 0x7f>", "<lambda>",
                                                                   "(anonymous)", "<forward>"], 2)
    elif rnd.random() < 0.3:
        # operators named like the kernels they launch (Triton / torch.compile wrappers, NCCL's host-side record_function): the class of a
        # span edge follows the side of ITS event, not the event's name (seed C10-Q classified once per name)
        over["ops_pool"] = rnd.sample(gen_sim.OPS, 3) + rnd.sample(gen_sim.COMP, 2) + rnd.sample(gen_sim.COMM, 1)
    return cpdrv.gen_case(rnd, tier, i, **dict(dict(max_depth=rnd.choice([3, 4, 5]), ops_per_step=rnd.choice([(2, 5), (3, 8)])), **over))


def _whatif_breakdown(g, rnd, res, tag) -> None:  # noqa: ANN001
    """A what-if that replaces one edge of the path by a new edge object of another weight (what CPGraph._add_edge does) and
    recomputes the path: the breakdown must describe the path that is reported now - one row per critical edge, durations
    adding up to the path's weight in the graph, summary shares of that total - whether or not the path's nodes changed."""
    from hta.analyzers.critical_path_analysis import CPEdge

    path = list(g.critical_path_nodes)
    cands = [(u, v) for u, v in zip(path, path[1:]) if g.edges[u, v]["weight"] >= 2]
    if not cands or rnd.random() < 0.4:
        return
    u, v = rnd.choice(cands)
    old = g.edges[u, v]["object"]
    w2 = g.edges[u, v]["weight"] / 2 if isinstance(g.edges[u, v]["weight"], float) else g.edges[u, v]["weight"] // 2
    g.add_edge(u, v, weight=w2, object=CPEdge(begin=u, end=v, weight=w2, type=old.type))
    ok, r = drv.guard(res, "critical_path (after replacing an edge)", g.critical_path)
    if not ok or r is not True:
        return
    ok, bd = drv.guard(res, "get_critical_path_breakdown (after what-if)", g.get_critical_path_breakdown)
    if not ok:
        return
    res.counters["breakdowns_after_edge_replacement"] += 1
    if list(g.critical_path_nodes) == path:
        res.counters["breakdowns_after_edge_replacement_same_path_nodes"] += 1
    p2 = list(g.critical_path_nodes)
    pw = sum(g.edges[a, b]["weight"] for a, b in zip(p2, p2[1:]))
    if bd is None or len(bd) != len(p2) - 1:
        res.bad("one-row-per-critical-edge", f"{tag} after replacing edge ({u},{v}): breakdown has {None if bd is None else len(bd)} rows, the path has {len(p2) - 1} edges")
        return
    if abs(float(bd["duration"].sum()) - pw) > 1e-9:
        res.bad("duration-conserved", f"{tag} after replacing edge ({u},{v}) (weight {old.weight} -> {w2}): breakdown durations add up to {bd['duration'].sum()}, "
                f"the critical path weighs {pw} in the graph")
        return
    ok, sm = drv.guard(res, "summary (after what-if)", g.summary)
    if ok and pw > 0:
        per = collections.Counter()
        for dur, cls in zip(bd["duration"].tolist(), bd["bound_by"].tolist()):
            per[cls] += dur
        got = {k: float(x) for k, x in sm.to_dict().items()}
        for cls, w in per.items():
            if abs(got.get(cls, 0.0) - 100.0 * w / pw) > 1e-6:
                res.bad("summary-share", f"{tag} after replacing edge ({u},{v}): summary[{cls!r}]={got.get(cls)} but the class holds {w} of {pw}")
                break


def run_case(case: Dict[str, Any], ctx: Any) -> core.CaseResult:
    res = core.CaseResult()
    nontrivial = False
    for A in cpdrv.analyse(case, ctx, res):
        g, v = A.graph, A.view
        tag = f"window={A.annotation!r}/{A.instance} rank={A.rank}"
        if A.ok is not True:
            res.bad("analysis-succeeds", f"{tag}: success={A.ok!r}")
            continue
        ok, bd = drv.guard(res, "get_critical_path_breakdown", g.get_critical_path_breakdown)
        if not ok:
            continue
        res.counters["breakdowns"] += 1
        edges = list(g.critical_path_edges_set)
        if bd is None or len(bd) != len(edges):
            res.bad("one-row-per-critical-edge", f"{tag}: breakdown has {None if bd is None else len(bd)} rows for {len(edges)} critical edges")
            continue
        total = sum(e.weight for e in edges)
        path = list(g.critical_path_nodes)
        path_weight = sum(g.edges[u, w_]["weight"] for u, w_ in zip(path, path[1:]) if g.has_edge(u, w_))
        if abs(float(bd["duration"].sum()) - path_weight) > 1e-9:
            res.bad("duration-conserved", f"{tag}: breakdown durations add up to {bd['duration'].sum()}, the critical path weighs {path_weight} "
                    f"in the graph (edge objects: {total})")
        # multiset of (attributed event, duration, type) from the edge objects vs. rows
        nl = g.node_list
        exp_rows = collections.Counter()
        cases_seen, classes_seen = set(), set()
        for e in edges:
            t = e.type.value
            s, d = nl[e.begin], nl[e.end]
            ev = g.get_event_attribution_for_edge(e)
            se, de = v.byid.get(int(s.ev_idx)), v.byid.get(int(d.ev_idx))
            desc = f"{t} ({s.ev_idx},{'start' if s.is_start else 'end'})@{s.ts} -> ({d.ev_idx},{'start' if d.is_start else 'end'})@{d.ts}"
            cls = ""
            if t in (refcp.T_OP, refcp.T_KK):
                res.counters["attributed_edges"] += 1
                a = v.byid.get(int(ev)) if ev is not None and ev == ev else None
                if a is None:
                    res.bad("attributed-event-exists", f"{tag}: {desc} attributed to {ev!r}, which is not an event of the analysed trace")
                    continue
                if t == refcp.T_KK:
                    if a.id != int(s.ev_idx):
                        res.bad("delay-attributed-to-preceding-kernel", f"{tag}: {desc} attributed to event {a.id}, expected the preceding kernel {s.ev_idx}")
                    cls = "gpu_kernel_kernel_overhead"
                else:
                    key = ("start" if s.is_start else "end") + "_" + ("start" if d.is_start else "end")
                    res.counters[f"case_{key}"] += 1
                    cases_seen.add(key)
                    same_lane = se is not None and de is not None and (
                        (a.stream == -1 and (a.pid, a.tid) == (se.pid, se.tid) == (de.pid, de.tid)) or
                        (a.stream != -1 and a.stream == se.stream == de.stream and a.id == se.id == de.id))
                    covers = a.ts <= s.ts and d.ts <= a.end
                    if not same_lane or not covers:
                        res.bad("span-attribution", f"{tag}: {desc} attributed to event {a.id} ({a.cat}/{a.name} [{a.ts},{a.end}] tid {a.tid} "
                                f"stream {a.stream}); it must lie on the endpoints' thread/stream and cover [{s.ts},{d.ts}]",
                                same_lane=same_lane, covers=covers)
                    exp_attr = A.exp.attribution.get(((int(s.ev_idx), bool(s.is_start)), (int(d.ev_idx), bool(d.is_start))))
                    if exp_attr is not None and exp_attr != a.id:
                        res.counters["attribution_differs_from_documented_table"] += 1
                    cls = "cpu_bound" if a.stream < 0 else ("gpu_communication_bound" if COMM_RE.match(_short(a.name)) else "gpu_compute_bound")
            elif t == refcp.T_LAUNCH:
                cls = "gpu_kernel_launch_overhead"
            if cls:
                res.counters[f"class_{cls}"] += 1
                classes_seen.add(cls)
            exp_rows[(None if t not in (refcp.T_OP, refcp.T_KK) else (int(ev) if ev is not None else None), e.weight, t, cls)] += 1
        got_rows = collections.Counter()
        for evi, dur, t, bb in zip(bd["event_idx"].tolist(), bd["duration"].tolist(), bd["type"].tolist(), bd["bound_by"].tolist()):
            got_rows[(None if evi is None or evi != evi else int(evi), dur, t, bb)] += 1
        if got_rows != exp_rows:
            diff_g = list((got_rows - exp_rows).items())[:3]
            diff_e = list((exp_rows - got_rows).items())[:3]
            res.bad("breakdown-rows", f"{tag}: breakdown rows (event, duration, type, bound_by) differ from the critical edges: "
                    f"unexpected {diff_g}; missing {diff_e}")
        # rows' event columns must describe the attributed event
        for evi, pid, tid, stream in zip(bd["event_idx"].tolist(), bd["pid"].tolist(), bd["tid"].tolist(), bd["stream"].tolist()):
            if evi is None or evi != evi:
                continue
            a = v.byid.get(int(evi))
            if a is not None and (pid != a.pid or tid != a.tid or stream != a.stream):
                res.bad("breakdown-event-columns", f"{tag}: row for event {int(evi)} reports pid/tid/stream {pid}/{tid}/{stream}, event has {a.pid}/{a.tid}/{a.stream}")
                break
        # summary
        if total > 0:
            ok2, sm = drv.guard(res, "summary", g.summary)
            if ok2:
                res.counters["summaries"] += 1
                per = collections.Counter()
                for (_, dur, _, cls), n in exp_rows.items():
                    per[cls] += dur * n
                got = {k: float(x) for k, x in sm.to_dict().items()}
                for cls, w in per.items():
                    if abs(got.get(cls, 0.0) - 100.0 * w / total) > 1e-6:
                        res.bad("summary-share", f"{tag}: summary[{cls!r}]={got.get(cls)} but the class holds {w} of {total} = {100.0 * w / total}%")
                if set(got) - set(per):
                    res.bad("summary-classes", f"{tag}: summary has classes {sorted(set(got) - set(per))} without critical edges")
                if abs(sum(got.values()) - 100.0) > 1e-6:
                    res.bad("summary-total", f"{tag}: summary percentages add up to {sum(got.values())}")
        else:
            res.counters["zero_weight_paths"] += 1
        if len(cases_seen) >= 3 or len(classes_seen) >= 3:
            nontrivial = True
        _whatif_breakdown(g, core.rng("c10whatif", case["win_seed"], A.annotation, str(A.instance)), res, tag)
        if res.sample is None:
            res.sample = {"window": [A.annotation, str(A.instance)], "critical_edges": len(edges), "path_weight": total,
                          "attribution_cases": sorted(cases_seen), "classes": sorted(classes_seen),
                          "rows_head": bd[["event_idx", "duration", "type", "bound_by"]].head(4).to_dict("records")}
    res.nontrivial = nontrivial
    res.trivial_reason = "fewer than 3 attribution cases and fewer than 3 classes on the path"
    res.key = core.digest([case["files"], case["win_seed"], case["zero_weight"]])
    return res
