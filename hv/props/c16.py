"""C16 — frequent kernel sequences count exactly the kernels launched under each operator."""
from __future__ import annotations

import collections
from typing import Any, Dict, List

from hv import core, drv, gen_sim, wf
from hv.ref import load as refload
from hv.ref import raw

ID = "C16"
RULE = ("G-sim traces with a small operator vocabulary (names repeat at several depths; 'aten::add' is a substring of 'aten::addmm'), "
        "operator names with regular-expression metacharacters (python frames 'model.py(42): forward', 'block.1' next to 'block11', 'fn[0]', 'a+b'), 1-3 ranks with queries switching between ranks, "
        "1-3 host threads without autograd thread, 1-4 streams, zero-duration kernels, launches without kernel, dropped launches / "
        "kernels, >127 events; for 2-4 operator names in sequence ON THE SAME TraceAnalysis object (the call graph is rebuilt each "
        "time), min_pattern_len in {1,2,3,5}, top_k in {1,5}: get_frequent_cuda_kernel_sequences vs. patterns recomputed from first "
        "principles (innermost-enclosing host tree, links, device activities beneath each instance in start order, instances at the "
        "shallowest depth of the name with >= min_pattern_len activities). Non-trivial: >= 2 distinct patterns or a pattern with "
        "count >= 2, and the name occurs at >= 2 depths or some shallowest instance is below the threshold. Distinct = hash of "
        "(files, query).")
ASSUMPTIONS = ["well-formed, K1-free traces; no autograd thread (backward re-parenting changes depths: C13)",
               "device activities beneath one instance have distinct start times (queries whose instances contain ties are skipped, counted)",
               "matching = the operator name contains the query string (documented)"]
FLOAT_KEYS = ["files"]          # fractional-time-unit workload class (hv/shard.py)
PLAN = {"quick": {"shards": 16, "cases": 320, "timeout": 900}, "thorough": {"shards": 16, "cases": 4000, "timeout": 3400}}
FLOORS = {"quick": {"distinct_nontrivial": 80, "queries": 450, "patterns_judged": 600, "name_at_several_depths": 100, "instance_below_threshold": 150,
                    "second_or_later_query_on_same_object": 250, "empty_results": 30, "traces_gt_127_events": 60,
                    "rank_switches_between_queries": 80, "queries_with_regex_metacharacters": 60},
          "thorough": {"distinct_nontrivial": 1500, "queries": 9000, "patterns_judged": 10000, "name_at_several_depths": 2000,
                       "instance_below_threshold": 3000, "second_or_later_query_on_same_object": 5000, "empty_results": 600, "traces_gt_127_events": 1200,
                       "rank_switches_between_queries": 1500, "queries_with_regex_metacharacters": 1200}}


META_OPS = ["model.py(42): forward", "block.1", "block11", "aten::add.Tensor", "fn[0]", "a+b", "c*d", "x|y", "^hat$", "back\\slash", "q?"]
META_QUERIES = ["model.py(42): forward", "(42)", "block.1", "block1", "add.Tensor", "fn[0]", "[0]", "a+b", "+", "c*", "x|y", "|", "^hat$", "^", "$", "back\\", "q?", "."]


def gen_case(rnd, tier: str, i: Any) -> Dict[str, Any]:
    n_steps = rnd.choice([0, 1, 2, 3, 4])
    n_ranks = rnd.choice([1, 1, 2, 3])
    meta = rnd.random() < 0.35           # operator names with regular-expression metacharacters (python frames, overload names)
    pool = rnd.sample(["aten::mm", "aten::add", "aten::addmm", "aten::linear", "aten::copy_"], rnd.randint(2, 4))
    if meta:
        pool = pool[:2] + rnd.sample(META_OPS, rnd.randint(2, 4))
    first_step = gen_sim.pick_first_step(rnd)
    files = {}
    mirrored = False
    mirror = rnd.random() < 0.35
    two_bwd = rnd.random() < 0.45            # two autograd threads: nothing is re-parented then
    autograd = n_steps >= 1 and rnd.random() < 0.4        # an autograd thread whose operators are re-parented beneath the main thread's annotations
    for r in range(n_ranks):
        p = gen_sim.random_params(rnd, tier, rank=r, n_steps=n_steps, first_step=first_step, autograd=autograd, avoid_k1=True, repeat_names=True,
                                  max_depth=rnd.choice([3, 5]), ops_per_step=rnd.choice([(3, 8), (6, 12), (6, 12)]), n_threads=(3 if two_bwd else 2) if autograd else rnd.choice([1, 1, 2]), autograd_threads=2 if two_bwd else 1,
                                  p_sync=rnd.choice([0.0, 0.1]), p_event=0.0, p_leaf_children=rnd.choice([(0, 3), (1, 4), (2, 5)]), pre_ops=rnd.choice([1, 3]))
        p["ops_pool"] = pool
        if mirror:
            p["p_annotation"] = 0.4
        tr = gen_sim.gen_trace(rnd, **p)
        gen_sim.drop_events(rnd, tr, p_launch=rnd.choice([0, 0, 0.1]), p_kernel=rnd.choice([0, 0, 0.1]))
        if mirror:
            gen_sim.mirror_annotations(rnd, tr)          # device-side copies of the host annotations, under the same names
            mirrored = True
        if not autograd and p["n_threads"] == 1 and rnd.random() < 0.3:
            gen_sim.twin_thread(tr)             # a second worker thread running the same operators at the same instants
        files[f"rank{r}.json"] = tr
    names = pool * 3 + ["cudaLaunchKernel", "aten::nonexistent", "ProfilerStep", "aten::"] + (rnd.sample(META_QUERIES, 4) if meta else [])
    if mirrored:
        names += ["my_region", "fwd_block", "## backward ##", "## forward ##", "##"] * 2
    if autograd:
        names += ["autograd::engine::evaluate_function", "## backward ##", "ProfilerStep", "Backward0", f"ProfilerStep#{first_step}"] * 2
    qs = [{"op": rnd.choice(names), "min_len": rnd.choice([1, 1, 1, 2, 2, 3, 5, 0]), "top_k": rnd.choice([1, 5]), "rank": rnd.randrange(n_ranks)}
          for _ in range(rnd.randint(2, 5 if n_ranks > 1 else 4))]
    return {"files": files, "queries": qs}


def expected(kept: List[raw.Ev], link: Dict[int, int], q: Dict[str, Any]):
    """-> (Counter pattern -> [count, gpu, cpu], info) or None when an instance has tied device start times."""
    # device-side annotations (Kineto's mirror of a host annotation, under the same name) are neither operators of a call stack nor
    # device activities launched by one
    kept = [e for e in kept if e.cat not in ("gpu_user_annotation", "cuda_profiler_range")]
    byid = {e.id: e for e in kept}
    par: Dict[int, int] = {}
    threads = wf.host_threads(kept)
    for key, th in threads.items():
        par.update(wf.tree_parents(th))
    # enhanced call graph (C13): with exactly one thread holding profiler steps and exactly one autograd thread, the autograd
    # thread's top-level operators lying within a backward annotation (else a profiler step) of the main thread hang beneath it
    main = [k for k, th in threads.items() if any(isinstance(e.name, str) and e.name.startswith("ProfilerStep#") for e in th)]
    bwd = [k for k, th in threads.items() if k not in main and any(isinstance(e.name, str) and "autograd::" in e.name for e in th)]
    if len(main) == 1 and len(bwd) == 1:
        mth, bth = threads[main[0]], threads[bwd[0]]
        anns = [e for e in mth if e.name.startswith("## backward ##")] or [e for e in mth if e.name.startswith("ProfilerStep#")]
        for e in bth:
            if par[e.id] == -1:
                inside = [a for a in anns if a.ts <= e.ts and e.end <= a.end]
                if inside:
                    par[e.id] = inside[0].id
    kids = collections.defaultdict(list)
    for c, p in par.items():
        kids[p].append(c)
    dev_of = collections.defaultdict(list)
    for e in kept:
        if e.stream > 0 and link.get(e.id, -1) > 0 and link[e.id] in byid:
            dev_of[link[e.id]].append(e)

    def depth(i: int) -> int:
        n = 0
        while par.get(i, -1) != -1:
            i = par[i]
            n += 1
        return n

    def devs(i: int) -> List[raw.Ev]:
        out = list(dev_of.get(i, []))
        for c in kids.get(i, []):
            out += devs(c)
        return out

    cands = [e for e in kept if e.id in par and isinstance(e.name, str) and q["op"] in e.name]
    dev_cands = [e for e in kept if e.id not in par and isinstance(e.name, str) and q["op"] in e.name]
    if dev_cands:
        return "device-name-match", None
    if not cands:
        return collections.Counter(), {"depths": 0, "below": 0}
    depths = {e.id: depth(e.id) for e in cands}
    md = min(depths.values())
    pats: Dict[str, List[int]] = {}
    below = 0
    for e in cands:
        if depths[e.id] != md:
            continue
        ds = devs(e.id)
        if len(ds) < q["min_len"]:
            below += 1
            continue
        ts = [d.ts for d in ds]
        if len(set(ts)) != len(ts):
            return "tied-starts", None
        ds.sort(key=lambda d: d.ts)
        pat = "|".join([e.name] + [d.name for d in ds])
        v = pats.setdefault(pat, [0, 0, 0])
        v[0] += 1
        v[1] += sum(d.dur for d in ds)
        v[2] += e.dur
    return pats, {"depths": len(set(depths.values())), "below": below}


def run_case(case: Dict[str, Any], ctx: Any) -> core.CaseResult:
    res = core.CaseResult()
    models = {}
    for fn, tr in case["files"].items():
        m = raw.model(tr["traceEvents"])
        why = wf.well_formed(m, tr["traceEvents"])
        if why:
            res.discarded, res.discard_reason = True, "not well-formed: " + why.split(":")[0][:50]
            return res
        models[tr["distributedInfo"]["rank"]] = m
    ld = refload.loaded(models, False)
    if any(not ld.kept[r] for r in models):
        res.discarded, res.discard_reason = True, "nothing left after trimming"
        return res
    links = {r: raw.link_oracle(m) for r, m in models.items()}
    tr = case["files"]["rank0.json"]
    d = ctx.scratch.new("c16")
    outdir = ctx.scratch.new("c16out")
    try:
        core.write_trace_files(d, case["files"])
        ok, ta = drv.guard(res, "TraceAnalysis(load)", drv.new_analysis, d)
        if not ok:
            return res
        kept = ld.kept[0]
        nontrivial = False
        if len(kept) > 127:
            res.counters["traces_gt_127_events"] += 1
        prev_rank = None
        for k, q in enumerate(case["queries"]):
            rk = q.get("rank", 0)
            kept, link = ld.kept[rk], links[rk]
            if prev_rank is not None and prev_rank != rk:
                res.counters["rank_switches_between_queries"] += 1
            prev_rank = rk
            if any(ch in q["op"] for ch in ".()[]+*?|^$\\"):
                res.counters["queries_with_regex_metacharacters"] += 1
            exp, info = expected(kept, link, q)
            if isinstance(exp, str):
                res.counters[f"query_skipped_{exp}"] += 1
                # still run it: later queries must not be affected by earlier calls on the same object
                drv.guard(core.CaseResult(), "get_frequent_cuda_kernel_sequences", ta.get_frequent_cuda_kernel_sequences, q["op"], outdir, q["min_len"], rk, q["top_k"], False)
                continue
            ok, df = drv.guard(res, "get_frequent_cuda_kernel_sequences", ta.get_frequent_cuda_kernel_sequences, q["op"], outdir, q["min_len"], rk, q["top_k"], False)
            res.counters["queries"] += 1
            if k >= 1:
                res.counters["second_or_later_query_on_same_object"] += 1
            if not ok:
                res.violations[-1].witness.update(query=q, k=k)
                continue
            tag = f"query #{k} {q}"
            got = {}
            if len(df):
                for pat, cnt, gpu, cpu in zip(df["pattern"].tolist(), df["count"].tolist(), df["GPU kernel duration (us)"].tolist(), df["CPU op duration (us)"].tolist()):
                    if pat in got:
                        res.bad("pattern-row-unique", f"{tag}: two rows for pattern {pat!r}")
                    got[pat] = [int(cnt), float(gpu), float(cpu)]
                counts = df["count"].tolist()
                if counts != sorted(counts, reverse=True):
                    res.bad("ordered-by-count", f"{tag}: rows are not ordered by descending count: {counts}")
            else:
                res.counters["empty_results"] += 1
            res.counters["patterns_judged"] += len(exp)
            if {p: [v[0], float(v[1]), float(v[2])] for p, v in exp.items()} != got:
                only_g = {p: got[p] for p in got if p not in exp or [exp[p][0], float(exp[p][1]), float(exp[p][2])] != got[p]}
                only_e = {p: exp[p] for p in exp if p not in got or [exp[p][0], float(exp[p][1]), float(exp[p][2])] != got[p]}
                res.bad("patterns", f"{tag}: reported patterns [count, GPU dur, CPU dur] {core.short(only_g, 500)} but expected {core.short(only_e, 500)}", query=q, k=k)
            if info["depths"] >= 2:
                res.counters["name_at_several_depths"] += 1
            if info["below"]:
                res.counters["instance_below_threshold"] += 1
            if (len(exp) >= 2 or any(v[0] >= 2 for v in exp.values())) and (info["depths"] >= 2 or info["below"]):
                nontrivial = True
        res.nontrivial = nontrivial
        res.trivial_reason = "no query with several patterns/instances and several depths or sub-threshold instances"
        res.key = core.digest([case["files"], case["queries"]])
        res.sample = {"queries": case["queries"], "events": len(tr["traceEvents"]), "last_expected": {p: v for p, v in list(exp.items())[:3]} if not isinstance(exp, str) else exp}
    finally:
        ctx.scratch.drop(d)
        ctx.scratch.drop(outdir)
    return res
