"""C02 — correlation links pair each launch call with its device activity, mutually."""
from __future__ import annotations

from typing import Any, Dict

from hv import core, drv, gen_sim, wf
from hv.mon import contracts
from hv.ref import raw

ID = "C02"
RULE = ("G-sim traces (1-3 host threads, 1-4 streams, every sync kind, launches whose kernel never appears, non-launch runtime "
        "calls carrying ids, id ranges tiny..2^30, file order time/grouped/shuffled with a host op first) with launches, device "
        "activities and sync partners dropped at random (both directions), parse-only and full load, 1-2 ranks; oracle = per-row "
        "recomputation of the link from the raw events by the documented side rule. Non-trivial: >= 1 linked pair and >= 1 zero "
        "sentinel and >= 1 row without id. Distinct = hash of files + configuration.")
ASSUMPTIONS = ["well-formed regime re-derived from raw events by hv/wf.py (violating cases are discarded, counted)",
               "reference link rule hv/ref/raw.py::link_oracle", "ijson backends unreachable"]
FLOAT_KEYS = ["files"]          # fractional-time-unit workload class (hv/shard.py)
PLAN = {"quick": {"shards": 16, "cases": 1280, "timeout": 600}, "thorough": {"shards": 16, "cases": 12000, "timeout": 3000}}
FLOORS = {
    "quick": {"distinct_nontrivial": 150, "transform_correlation_to_index.post": 300, "linked_rows": 3000, "zero_sentinels": 300,
              "sync_links": 100, "rows_gt_127": 20, "linked_row_ids_wider_than_correlation_ids": 5},
    "thorough": {"distinct_nontrivial": 3000, "transform_correlation_to_index.post": 6000, "linked_rows": 60000, "zero_sentinels": 6000,
                 "sync_links": 2000, "rows_gt_127": 400, "linked_row_ids_wider_than_correlation_ids": 100},
}


def setup(ctx: Any) -> None:
    contracts.install_c02(ctx)


def gen_case(rnd, tier: str, i: Any) -> Dict[str, Any]:
    n_ranks = rnd.choice([1, 1, 1, 2])
    files = {}
    sub_us = False
    first_step = gen_sim.pick_first_step(rnd, 3)
    big = rnd.random() < 0.15
    for r in range(n_ranks):
        p = gen_sim.random_params(rnd, tier, rank=r, first_step=first_step)
        if big:
            p.update(n_steps=rnd.choice([3, 5]), ops_per_step=(6, 12), max_depth=3)
        tr = gen_sim.gen_trace(rnd, **p)
        gen_sim.drop_events(rnd, tr, p_launch=rnd.choice([0, 0.1, 0.3]), p_kernel=rnd.choice([0, 0.1, 0.3]), p_sync=rnd.choice([0, 0.2]))
        if rnd.random() < 0.3:
            # ROCm-style host calls: the runtime call carries the stream *handle* as a hex string (not a stream number)
            for k, e in enumerate(tr["traceEvents"]):
                if k > 0 and e.get("ph") == "X" and e.get("cat") in ("cuda_runtime", "cuda_driver") and isinstance(e.get("args"), dict) and rnd.random() < 0.5:
                    e["args"]["stream"] = rnd.choice(["0x0", "0x55d0c8a0", "0x7f3a00001c00"])
        if rnd.random() < 0.2:
            # nanosecond-resolution device records shorter than 1us that contain no whole microsecond: inward rounding leaves
            # them with end < ts; they are still the partners of their launches
            n_sub = 0
            for k, e in enumerate(tr["traceEvents"]):
                if k > 0 and e.get("ph") == "X" and e.get("cat") in ("kernel", "gpu_memcpy", "gpu_memset") and isinstance(e.get("ts"), int) and rnd.random() < 0.3:
                    e["ts"] = e["ts"] + 0.25
                    e["dur"] = 0.5
                    n_sub += 1
            if n_sub:
                sub_us = True
        files[f"rank{r}.json"] = tr
    mode = rnd.choice(["parse", "load"])
    if mode == "parse" and rnd.random() < 0.4:
        # device-level sync records (stream -1) that carry no correlation id: device side by name, "no id" by the sentinel.
        # Parse-only: with trimming such records are the recorded finding K2 of C01.
        for tr in files.values():
            for e in tr["traceEvents"]:
                if e.get("cat") == "cuda_sync" and e.get("name") in ("Context Sync", "Event Sync") and isinstance(e.get("args"), dict) and rnd.random() < 0.6:
                    e["args"].pop("correlation", None)
    return {"files": files, "sub_us": sub_us, "cfg": {"mode": mode, "mp": rnd.random() < 0.3, "inc_last": rnd.random() < 0.5,
                                                      "parser": rnd.choice(drv.PARSER_VARIANTS)}}


def fixed_cases(tier: str):
    from hv import samples
    out = [dict(c, cfg={"mode": m, "mp": False, "inc_last": False}) for c in samples.sample_cases(tier) for m in ("parse", "load")]
    if tier == "thorough":
        out = out + [{"kind": "repo_tests", "file": f} for f in ("test_correlation.py", "test_trace_analysis.py")]
        out = out + [{"files": {"rank0.json": gen_sim.huge_trace(21)}, "cfg": {"mode": "load", "mp": False, "inc_last": False, "parser": "default"}, "time_unit": 1}]          # row ids beyond int16
        # more than 2^15 host calls that carry a correlation id (block-wise joins, 16-bit positions)
        out = out + [{"files": {"rank0.json": gen_sim.huge_trace(22, n_steps=200)}, "cfg": {"mode": "parse", "mp": False, "inc_last": False, "parser": "default"}, "time_unit": 1,
                      "many_host_ids": True}]
    return out


def run_case(case: Dict[str, Any], ctx: Any) -> core.CaseResult:
    res = core.CaseResult()
    if case.get("kind") == "repo_tests":
        from hv.mon import repotests
        res.key = "repo_tests:" + case["file"]
        repotests.run(case["file"], res, ctx)
        return res
    cfg = case["cfg"]
    models = {}
    for fn, tr in case["files"].items():
        m = raw.model(tr["traceEvents"])
        why = wf.well_formed(m, tr["traceEvents"], rounded_away_device_ok=bool(case.get("sub_us")))
        if why:
            res.discarded, res.discard_reason = True, "not well-formed: " + why.split(":")[0]
            return res
        models[tr["distributedInfo"]["rank"]] = m
    d = ctx.scratch.new("c02")
    try:
        core.write_trace_files(d, case["files"])
        t = drv.new_trace(d, parser=cfg.get("parser"))
        res.counters[f"parser_{cfg.get('parser', 'default')}"] += 1
        if case.get("sub_us") and case.get("time_unit", 1) == 1:
            res.counters["cases_with_device_records_rounded_to_negative_length"] += 1
        if cfg["mode"] == "parse":
            ok, _ = drv.guard(res, "parse_traces", t.parse_traces, use_multiprocessing=cfg["mp"])
        else:
            ok, _ = drv.guard(res, "load_traces", t.load_traces, include_last_profiler_step=cfg["inc_last"], use_multiprocessing=cfg["mp"])
        if not ok:
            return res
        n_linked = n_zero = n_none = 0
        for r, m in models.items():
            exp = raw.link_oracle(m)
            byid = {e.id: e for e in m}
            df = t.get_trace(r)
            if "index_correlation" not in df.columns:
                res.bad("column", f"rank {r}: no index_correlation column")
                continue
            present = set(df["index"].tolist())
            n_host_ids = sum(1 for e in m if e.corr != -1 and not e.device_side)
            if n_host_ids > 2 ** 15:
                res.counters["ranks_with_more_than_32768_host_calls_carrying_an_id"] += 1
            if len(df) > 127:
                res.counters["rows_gt_127"] += 1
                if max((e.corr for e in m), default=0) < 128 and any(x > 127 for x in exp.values()):
                    res.counters["linked_row_ids_wider_than_correlation_ids"] += 1
            nbad = 0
            for i, ic in drv.rows(df, ["index", "index_correlation"]):
                e = byid.get(i)
                if e is None:
                    continue
                x = exp[i]
                if x > 0:
                    n_linked += 1
                    if byid[x].cat == "cuda_sync" or e.cat == "cuda_sync":
                        res.counters["sync_links"] += 1
                elif x == 0:
                    n_zero += 1
                else:
                    n_none += 1
                if ic != x:
                    nbad += 1
                    if nbad <= 3:
                        o = byid.get(ic)
                        res.bad("link", f"rank {r} event {i} ({e.cat}/{e.name}, corr {e.corr}, stream {e.stream}): index_correlation={ic}"
                                f"{' -> ' + o.cat + '/' + str(o.name) + ' corr ' + str(o.corr) if o else ''}, expected {x}",
                                rank=r, id=i, got=ic, expected=x)
                elif ic > 0 and ic not in present and cfg["mode"] == "load":
                    res.bad("link-target-present", f"rank {r} event {i} links to {ic}, which loading dropped while keeping {i}")
        res.counters["linked_rows"] += n_linked
        res.counters["zero_sentinels"] += n_zero
        res.counters["no_id_rows"] += n_none
        res.nontrivial = n_linked > 0 and n_zero > 0 and n_none > 0
        res.trivial_reason = "no linked pair or no zero sentinel"
        res.key = core.digest([case.get("sample") or case["files"], cfg])
        if case.get("sample"):
            res.counters["real_sample_traces"] += 1
        first = next(iter(case["files"].values()))
        res.sample = {"cfg": cfg, "ranks": len(models), "events": len(first["traceEvents"]), "linked": n_linked, "zero": n_zero,
                      "events_head": [e for e in first["traceEvents"] if e.get("ph") == "X"][:4]}
    finally:
        ctx.scratch.drop(d)
    return res
