"""C18 — trace filters are pure row selections with the documented predicates."""
from __future__ import annotations

import re
from typing import Any, Callable, Dict, List, Optional

from hv import core, drv, gen_sim, wf
from hv.mon import purity
from hv.ref import raw

ID = "C18"
RULE = ("frames from loaded G-sim traces (1-3 ranks): encoded, decoded into s_name/s_cat, decoded in place, concatenated with a rank "
        "column, with the iteration / correlation columns removed, empty; x every filter class with parameters incl. boundary values "
        "(events ending exactly at the range end, iteration -1, absent ranks/iterations, patterns with regex metacharacters, memcpy "
        "types present/absent) x random compositions of 1-4 filters; oracle = row-wise Python predicate per filter, composite == "
        "sequential, intersection in any order and idempotence for row-local members; the purity monitor (icontract on __call__ of "
        "every Filter class) checks input-unchanged / sub-sequence / row equality on every call, also those made by the loader. "
        "Host annotations whose names merely contain 'Event Sync' / 'Context Sync'; one filter OBJECT reused on two traces with different symbol tables (A,B,A) and after the table grew. "
        "Non-trivial: application that selects a proper non-empty subset. Distinct = hash of (frame kind, filter spec, trace).")
ASSUMPTIONS = ["an empty result is accepted whatever its columns", "a filter whose required column is absent returns the input unchanged (documented)",
               "NameFilter with a symbol table on a frame whose name column holds strings is not exercised (documented to match ids)"]
PLAN = {"quick": {"shards": 16, "cases": 320, "timeout": 900}, "thorough": {"shards": 16, "cases": 4000, "timeout": 3400}}
_CLS = ("IterationFilter", "IterationIndexFilter", "RankFilter", "TimeRangeFilter", "NameFilter", "GPUKernelFilter", "CPUOperatorFilter",
        "CompositeFilter", "MemCopyEventFilter")
FLOORS = {"quick": dict({"distinct_nontrivial": 100, "applications": 4000, "proper_subset_results": 1500, "decoded_name_filters": 150,
                         "time_range_boundary_hits": 50, "laws_checked": 1000, "frames_with_repeated_index_labels": 200,
                         "reused_filter_applications": 3000, "reused_filter_after_table_growth": 200,
                         "traces_with_stream_0": 50, "frames_with_stale_end_column": 500, "frames_with_only_the_name_decoded": 800}, **{f"purity[{c}].post": 100 for c in _CLS}),
          "thorough": dict({"distinct_nontrivial": 2500, "applications": 100000, "proper_subset_results": 35000, "decoded_name_filters": 3500,
                            "time_range_boundary_hits": 1200, "laws_checked": 25000, "frames_with_repeated_index_labels": 3000,
                            "reused_filter_applications": 40000, "reused_filter_after_table_growth": 2500,
                            "traces_with_stream_0": 700, "frames_with_stale_end_column": 7000}, **{f"purity[{c}].post": 2500 for c in _CLS})}
N_APPS = 36


def setup(ctx: Any) -> None:
    purity.install(ctx)


def gen_case(rnd, tier: str, i: Any) -> Dict[str, Any]:
    n_ranks = rnd.choice([1, 2, 3])
    first_step = gen_sim.pick_first_step(rnd)
    n_steps = rnd.choice([0, 1, 2, 3, 4])
    files = {}
    for r in range(n_ranks):
        p = gen_sim.random_params(rnd, tier, rank=r, first_step=first_step, n_steps=n_steps)
        tr = gen_sim.gen_trace(rnd, **p)
        gen_sim.drop_events(rnd, tr, p_launch=rnd.choice([0, 0.1]), p_kernel=rnd.choice([0, 0.1]))
        if rnd.random() < 0.4:
            # host annotations whose names merely contain the two device-side sync names
            for k, e in enumerate(tr["traceEvents"]):
                if k > 0 and e.get("ph") == "X" and e.get("cat") in ("cpu_op", "user_annotation") and "ProfilerStep" not in e["name"] \
                        and "backward" not in e["name"] and rnd.random() < 0.12:
                    e["name"] = rnd.choice(["Event Sync barrier", "Context Sync check", "Event Synchronize", "my Event Sync", "Context Sync"[:-1]])
        if rnd.random() < 0.35:
            # device records that carry a stream but no correlation id (a kernel whose launch record was lost, a device-side
            # annotation range): on a stream, yet not "device side" by the documented rule (stream >= 0 and correlation >= 0) - the host
            # filter is the complement of the device filter, not "stream == -1" (seed C18-R)
            for e in tr["traceEvents"]:
                a = e.get("args") if isinstance(e, dict) else None
                if e.get("ph") == "X" and isinstance(a, dict) and a.get("stream", -1) not in (-1, None) and "correlation" in a and rnd.random() < 0.2:
                    del a["correlation"]
        files[f"rank{r}.json"] = tr
    return {"files": files, "app_seed": rnd.randrange(10 ** 9), "inc_last": rnd.random() < 0.5, "reuse": True,
            "stream0": rnd.random() < 0.3}


# ------------------------------------------------------------------ filter specs -> (real filter, predicate over row dicts)
def build(spec: Dict[str, Any], tf, st, frame_info):  # noqa: ANN001
    """-> (filter object, needs_symbol_table, predicate(rows, frame) -> list of selected labels or None for 'input unchanged')"""
    k = spec["kind"]
    sym = st.get_sym_table()
    if k == "iteration":
        its = spec["iterations"]
        f = tf.IterationFilter(its)
        L = its if isinstance(its, list) else [its]

        def pred(rows, cols):
            if "iteration" not in cols:
                return None
            return [r["_label"] for r in rows if r["iteration"] in L]
        return f, False, pred, True
    if k == "iteration_index":
        idx = spec["index"]
        f = tf.FirstIterationFilter() if spec.get("first") else tf.IterationIndexFilter(idx)
        I = [0] if spec.get("first") else (idx if isinstance(idx, list) else [idx])

        def pred(rows, cols):
            if "iteration" not in cols:
                return None
            its = sorted({r["iteration"] for r in rows})
            if its == [-1]:
                return None
            if its and its[0] == -1:
                its = its[1:]
            sel = [v for j, v in enumerate(its) if j in I]
            return [r["_label"] for r in rows if r["iteration"] in sel]
        return f, False, pred, False
    if k == "rank":
        rk = spec["ranks"]
        f = tf.RankFilter(rk)
        L = rk if isinstance(rk, list) else [rk]

        def pred(rows, cols):
            if "rank" not in cols:
                return None
            return [r["_label"] for r in rows if r["rank"] in L]
        return f, False, pred, True
    if k == "time":
        a, b = spec["range"]
        f = tf.TimeRangeFilter((a, b))

        def pred(rows, cols):
            return [r["_label"] for r in rows if r["ts"] >= a and r["ts"] + r["dur"] <= b]
        return f, False, pred, True
    if k == "name":
        pat = spec["pattern"]
        use_st = spec["with_table"]
        f = tf.NameFilter(pat, st if spec.get("table_in_ctor") and use_st else None)
        rx = re.compile(pat)

        def pred(rows, cols):
            if not rows:
                return None
            if use_st:
                return [r["_label"] for r in rows if isinstance(r["name"], int) and rx.match(sym[r["name"]])]
            col = frame_info["string_name_col"]
            if col is None:
                return None
            return [r["_label"] for r in rows if rx.match(r[col])]
        return f, use_st and not spec.get("table_in_ctor"), pred, True
    if k in ("gpu", "cpu"):
        f = tf.GPUKernelFilter() if k == "gpu" else tf.CPUOperatorFilter()
        use_st = spec["with_table"]

        def pred(rows, cols):
            if "stream" not in cols:
                return None
            out = []
            for r in rows:
                on_stream = r["stream"] >= 0 and r["correlation"] >= 0
                if use_st:
                    nm = sym[r["name"]] if isinstance(r["name"], int) else r["name"]
                    dev = on_stream or nm in ("Event Sync", "Context Sync")
                    sel = dev if k == "gpu" else not dev
                else:
                    sel = on_stream if k == "gpu" else r["stream"] == -1
                if sel:
                    out.append(r["_label"])
            return out
        return f, use_st, pred, True
    if k == "memcpy":
        ty = spec["type"]
        f = tf.MemCopyEventFilter(ty, st)

        def pred(rows, cols):
            if not rows:
                return None
            return [r["_label"] for r in rows if isinstance(r["name"], int) and sym[r["name"]] == ty and sym[r["cat"]] == "gpu_memcpy"]
        return f, False, pred, True
    raise ValueError(k)


def rows_of(df) -> List[Dict[str, Any]]:  # noqa: ANN001
    cols = list(df.columns)
    out = []
    data = {c: df[c].tolist() for c in cols}
    labels = df.index.tolist()
    for i, lab in enumerate(labels):
        r = {c: data[c][i] for c in cols}
        r["_label"] = r.get("_uid", lab)
        out.append(r)
    return out


def random_spec(rnd, info) -> Dict[str, Any]:  # noqa: ANN001
    kinds = ["iteration", "iteration_index", "time", "name", "gpu", "cpu", "memcpy", "rank"]
    if info.get("name_only_decoded"):
        kinds.remove("memcpy")          # MemCopyEventFilter reads encoded names and categories (documented); not applied to half-decoded frames
    k = rnd.choice(kinds)
    its = info["iterations"] or [5]
    if k == "iteration":
        x = rnd.random()
        v = rnd.choice(its + [-1, max(its) + 7]) if x < 0.5 else rnd.sample(its + [-1, 9999], rnd.randint(1, min(3, len(its) + 2)))
        if x > 0.92:
            v = []                 # a computed list that came out empty selects no row
        return {"kind": k, "iterations": v}
    if k == "iteration_index":
        x = rnd.random()
        if x < 0.2:
            return {"kind": k, "first": True, "index": [0]}
        return {"kind": k, "index": rnd.choice([0, 1, len(its) - 1, len(its), [0, 1], [1, 5], [1], [2, 3], []])}
    if k == "rank":
        # lists in descending order and with a repeated rank: a filter selects rows, it neither reorders nor repeats them
        return {"kind": k, "ranks": rnd.choice([0, 1, [0, 2], [7], list(range(info["n_ranks"])), [], [1, 0], [0, 0, 1], list(range(info["n_ranks"]))[::-1]])}
    if k == "time":
        ends = info["ends"]
        starts = info["starts"]
        a = rnd.choice(starts + [0, min(starts) - 1])
        b = rnd.choice([e for e in ends if e >= a] or [a])
        if rnd.random() < 0.3:
            b = b + rnd.choice([-1, 1, 0])
        if b < a:
            b = a
        return {"kind": k, "range": [int(a), int(b)]}
    if k == "name":
        nm = rnd.choice(info["names"])
        pat = rnd.choice([re.escape(nm), re.escape(nm[: max(1, len(nm) // 2)]), "aten::", ".*Kernel", "^Memcpy", "cuda(Launch|Memcpy)", "void .*<", "nomatch_xyz",
                          re.escape(nm) + "$", "."])
        if info.get("short_cols") and rnd.random() < 0.6:
            # parts of a name that shorten_name() strips: only the full (table) name matches them
            pat = rnd.choice(["^void ", ".*<float", r"\(", "void .*<", "<.*>", re.escape(nm) + "$", r".*\)$", "::detail::"])
        # a composite hands one symbol table (or none) to every member: info["pass_table"] is decided per application
        in_ctor = info["kind"] != "decoded_inplace" and rnd.random() < 0.3
        return {"kind": k, "pattern": pat, "with_table": info["pass_table"] or in_ctor, "table_in_ctor": in_ctor and not info["pass_table"]}
    if k in ("gpu", "cpu"):
        return {"kind": k, "with_table": info["pass_table"]}
    return {"kind": "memcpy", "type": rnd.choice(["Memcpy HtoD (Pageable -> Device)", "Memcpy DtoH (Device -> Pinned)", "Memcpy DtoD (Device -> Device)",
                                                  "Memcpy PtoP (nowhere)"])}


def _reuse_phase(case, ctx, res, t, st, rnd, tf) -> None:  # noqa: ANN001
    """One filter OBJECT applied to frames of two different traces (two symbol tables with different id numbering), back and
    forth, and to the first trace again after its table has grown: a filter is a function of (frame, table) only."""
    import copy

    files2 = {}
    for fn, tr in list(case["files"].items())[-1:]:
        tr2 = copy.deepcopy(tr)
        for k, e in enumerate(tr2["traceEvents"]):
            if k > 0 and e.get("ph") == "X" and "ProfilerStep" not in str(e.get("name")) and rnd.random() < 0.4:
                e["name"] = str(e["name"]) + "_v2"
        tr2["traceEvents"].append({"ph": "X", "cat": "cpu_op", "name": "aaa_only_in_second_trace", "pid": 1, "tid": 1,
                                   "ts": tr2["traceEvents"][0]["ts"], "dur": 1, "args": {}})
        files2[fn] = tr2
    d2 = ctx.scratch.new("c18b")
    try:
        core.write_trace_files(d2, files2)
        t2 = drv.new_trace(d2)
        ok, _ = drv.guard(res, "load_traces (second trace)", t2.load_traces, include_last_profiler_step=case["inc_last"], use_multiprocessing=False)
        if not ok:
            return
        st2 = t2.symbol_table
        frames = [(t.get_trace(rnd.choice(t.get_ranks())).copy(), st), (t2.get_trace(t2.get_ranks()[0]).copy(), st2)]
        for fr, _st in frames:
            fr["_uid"] = range(len(fr))
        for _ in range(6):
            names = sorted({x for tab in (st, st2) for x in tab.get_sym_table() if isinstance(x, str)})
            info = {"kind": "encoded", "string_name_col": None, "n_ranks": 1, "iterations": [], "starts": [0], "ends": [0], "names": names or ["x"], "pass_table": True}
            kind = rnd.choice(["name", "name", "gpu", "cpu"])
            spec = None
            while spec is None or spec["kind"] != kind or spec.get("table_in_ctor"):
                spec = random_spec(rnd, info)
            flt = build(spec, tf, st, info)[0]                     # the one object that is reused
            order = [0, 1, 0] if rnd.random() < 0.5 else [1, 0, 1]
            for step, which in enumerate(order):
                fr, tab = frames[which]
                pred = build(spec, tf, tab, info)[2]
                rows = rows_of(fr)
                exp = pred(rows, list(fr.columns))
                exp = [r["_label"] for r in rows] if exp is None else exp
                ok, out = drv.guard(res, f"reused filter {spec}", flt, fr, tab)
                res.counters["reused_filter_applications"] += 1
                if not ok:
                    break
                got = out["_uid"].tolist() if len(out) else []
                if got != exp:
                    sym = tab.get_sym_table()
                    res.bad("predicate", f"filter object {spec} reused on trace {'AB'[which]} (application #{step + 1}, order {order}): selected {len(got)} rows, "
                            f"predicate selects {len(exp)}; wrongly selected {[sym[fr['name'].iloc[u]] for u in got if u not in set(exp)][:4]}, "
                            f"wrongly dropped {[sym[fr['name'].iloc[u]] for u in exp if u not in set(got)][:4]}", specs=[spec], frame="reuse")
                    break
            # the first table grows; rows using the new symbol must be judged with the grown table
            if kind == "name" and rnd.random() < 0.5:
                new_sym = f"grown_symbol_{rnd.randrange(10 ** 6)}::" + rnd.choice(names)
                st.add_symbols([new_sym])
                fr = frames[0][0].copy()
                if len(fr):
                    fr.iloc[0, fr.columns.get_loc("name")] = st.get_sym_id_map()[new_sym]
                    pred = build(spec, tf, st, info)[2]
                    rows = rows_of(fr)
                    exp = pred(rows, list(fr.columns))
                    ok, out = drv.guard(res, f"reused filter {spec} after add_symbols", flt, fr, st)
                    res.counters["reused_filter_after_table_growth"] += 1
                    if ok and (out["_uid"].tolist() if len(out) else []) != exp:
                        res.bad("predicate", f"filter object {spec} reused after the symbol table grew by {new_sym!r}: selected "
                                f"{len(out)} rows, predicate selects {len(exp)}", specs=[spec], frame="reuse-grown")
    finally:
        ctx.scratch.drop(d2)


def fixed_cases(tier: str):
    return [{"kind": "repo_tests", "file": "test_trace_filter.py"}] if tier == "thorough" else []


STABLE_FILTER_TESTS = ["testCPUOperatorFilter", "testCompositeFilter", "testFirstIterationFilter", "testGPUKernelFilter", "testIterationFilter",
                       "testIterationIndexFilter", "testNameFilter", "testRankFilter", "testTimeRangeFilter"]


def run_case(case: Dict[str, Any], ctx: Any) -> core.CaseResult:
    res = core.CaseResult()
    if case.get("kind") == "repo_tests":
        from hv.mon import repotests
        res.key = "repo_tests:" + case["file"]
        repotests.run(case["file"], res, ctx, STABLE_FILTER_TESTS)
        return res
    for fn, tr in case["files"].items():
        m = raw.model(tr["traceEvents"])
        why = wf.well_formed(m, tr["traceEvents"])
        if why:
            res.discarded, res.discard_reason = True, "not well-formed: " + why.split(":")[0][:50]
            return res
    if case.get("stream0"):
        # after the regime check (which keeps device activities off stream 0 for the iteration / link rules of other
        # properties): one stream of every rank becomes the legacy default stream 0
        import copy
        files = copy.deepcopy(case["files"])
        for tr in files.values():
            ss = sorted({e["args"]["stream"] for e in tr["traceEvents"] if isinstance(e, dict) and isinstance(e.get("args"), dict)
                         and isinstance(e["args"].get("stream"), int) and e["args"]["stream"] > 0})
            if ss:
                s0 = ss[case["app_seed"] % len(ss)]
                for e in tr["traceEvents"]:
                    if isinstance(e, dict) and isinstance(e.get("args"), dict) and e["args"].get("stream") == s0:
                        e["args"]["stream"] = 0
                        if e.get("tid") == s0:
                            e["tid"] = 0
        case = dict(case, files=files)
        res.counters["traces_with_stream_0"] += 1
    d = ctx.scratch.new("c18")
    try:
        import pandas as pd
        import hta.common.trace_filter as tf

        core.write_trace_files(d, case["files"])
        t = drv.new_trace(d)
        ok, _ = drv.guard(res, "load_traces", t.load_traces, include_last_profiler_step=case["inc_last"], use_multiprocessing=False)
        if not ok:
            return res
        st = t.symbol_table
        rnd = core.rng("apps", case["app_seed"])
        ranks = t.get_ranks()
        nontrivial_keys = 0
        for app in range(N_APPS):
            r = rnd.choice(ranks)
            base = t.get_trace(r)
            kind = rnd.choice(["encoded", "encoded", "decoded_cols", "decoded_inplace", "rank_col", "rank_col_dup_index", "no_iteration", "empty",
                               "no_end", "rebased", "decoded_name_only", "decoded_name_projection", "decoded_short_cols", "iteration_gap"])
            if kind == "encoded":
                df = base.copy()
            elif kind == "decoded_cols":
                df = base.copy()
                st.decode_df(df, create_new_columns=True)
            elif kind == "decoded_inplace":
                df = base.copy()
                st.decode_df(df, create_new_columns=False)
            elif kind in ("rank_col", "rank_col_dup_index"):
                parts = []
                for rr in ranks:
                    x = t.get_trace(rr).copy()
                    x["rank"] = rr
                    parts.append(x)
                # the natural multi-rank frame keeps each rank's event ids as labels (repeated across ranks)
                df = pd.concat(parts, ignore_index=(kind == "rank_col"))
                if kind == "rank_col_dup_index" and not df.index.is_unique:
                    res.counters["frames_with_repeated_index_labels"] += 1
                if rnd.random() < 0.5:
                    st.decode_df(df, create_new_columns=True)
            elif kind in ("decoded_name_only", "decoded_name_projection"):
                # only the name column expanded to strings (add_symbols_to_trace_df); the category stays encoded or is not there
                df = base.copy()
                st.add_symbols_to_trace_df(df, "name")
                if kind == "decoded_name_projection":
                    df = df[["index", "name", "ts", "dur", "stream", "correlation", "iteration", "end"]].copy()
                res.counters["frames_with_only_the_name_decoded"] += 1
            elif kind == "decoded_short_cols":
                # Trace.decode_symbol_ids() with its default: s_name / s_cat hold *shortened* names next to the encoded columns
                from hta.common.trace_symbol_table import decode_symbol_id_to_symbol_name
                df = base.copy()
                decode_symbol_id_to_symbol_name(df, st, True)
                res.counters["frames_with_shortened_name_columns"] += 1
            elif kind == "iteration_gap":
                # the iterations present are not consecutive numbers (a middle step was filtered out earlier)
                df = base.copy()
                its_ = sorted({int(x) for x in df["iteration"].tolist() if x >= 0})
                if len(its_) >= 3:
                    df = df[df["iteration"] != its_[len(its_) // 2]].copy()
                    res.counters["frames_with_a_gap_in_the_iterations"] += 1
            elif kind == "no_iteration":
                df = base.drop(columns=["iteration"]).copy()
            elif kind == "no_end":
                df = base.drop(columns=["end"]).copy()              # a column projection: filters work on ts and dur
            elif kind == "rebased":
                df = base.copy()
                df["ts"] = df["ts"] - df["ts"].min() + 5            # the caller re-based the time stamps; 'end' is now stale
                res.counters["frames_with_stale_end_column"] += 1
            else:
                df = base.iloc[0:0].copy()
            if len(df) == 0 and kind != "empty":
                continue
            name_col = None
            for c in ("name", "s_name"):
                if c in df.columns and len(df) and isinstance(df[c].iloc[0], str):
                    name_col = c
                    break
            sym = st.get_sym_table()
            df["_uid"] = range(len(df))          # harness row identity (filters ignore unknown columns); labels may repeat
            info = {"kind": {"no_iteration": "encoded", "empty": "encoded", "rank_col_dup_index": "rank_col", "no_end": "encoded", "rebased": "encoded",
                                     "decoded_name_only": "decoded_inplace", "decoded_name_projection": "decoded_inplace",
                                     "decoded_short_cols": "encoded", "iteration_gap": "encoded"}.get(kind, kind), "string_name_col": name_col, "short_cols": kind == "decoded_short_cols", "n_ranks": len(ranks),
                    "iterations": sorted({int(x) for x in df["iteration"].tolist() if x >= 0}) if "iteration" in df.columns else [],
                    "starts": [int(x) for x in df["ts"].tolist()] or [0], "ends": [int(a + b) for a, b in zip(df["ts"].tolist(), df["dur"].tolist())] or [0],
                    "names": sorted({sym[x] if isinstance(x, int) else x for x in df["name"].tolist()}) or ["x"],
                    "name_only_decoded": kind in ("decoded_name_only", "decoded_name_projection"),
                    "pass_table": kind not in ("decoded_inplace", "decoded_name_only", "decoded_name_projection") and rnd.random() < (0.8 if kind in ("encoded", "no_iteration", "empty", "no_end", "rebased", "iteration_gap") else 1.0 if kind == "decoded_short_cols" else 0.4)}
            n_f = rnd.choice([1, 1, 1, 2, 3, 4])
            specs = [random_spec(rnd, info) for _ in range(n_f)]
            built = [build(s, tf, st, info) for s in specs]
            need_st = info["pass_table"]
            # --- expected by sequential predicates
            rows = rows_of(df)
            cols = list(df.columns)
            cur_rows = rows
            exp_unknown = False
            for (_f, _n, pred, _loc) in built:
                sel = pred(cur_rows, cols)
                if sel is not None:
                    keep = set(sel)
                    cur_rows = [x for x in cur_rows if x["_label"] in keep]
                if not cur_rows:
                    break
            exp_labels = [x["_label"] for x in cur_rows]
            flt = built[0][0] if n_f == 1 else tf.CompositeFilter([b[0] for b in built])
            snap = df.copy(deep=True)
            ok, out = drv.guard(res, f"filter {specs}", flt, df, st if need_st else None)
            res.counters["applications"] += 1
            if not ok:
                res.violations[-1].witness.update(specs=specs, frame=kind)
                continue
            tag = f"frame={kind} specs={specs}"
            if not purity._same_frame(snap, df):
                res.bad("input-unmodified", f"{tag}: the input frame was modified")
            msg = purity.check_selection(snap, out)
            if msg:
                res.bad("sub-frame", f"{tag}: {msg}")
            got_labels = (out["_uid"].tolist() if "_uid" in out.columns else out.index.tolist()) if len(out) else []
            if got_labels != exp_labels:
                extra = [x for x in got_labels if x not in set(exp_labels)][:4]
                miss = [x for x in exp_labels if x not in set(got_labels)][:4]
                res.bad("predicate", f"{tag}: selected {len(got_labels)} rows, predicate selects {len(exp_labels)}; wrongly selected {extra}, wrongly dropped {miss} "
                        f"(string name column: {name_col})", specs=specs, frame=kind, name_col=name_col)
            if specs[0]["kind"] == "name" and not specs[0]["with_table"] and name_col:
                res.counters["decoded_name_filters"] += 1
            if any(s["kind"] == "time" and s["range"][1] in info["ends"] for s in specs):
                res.counters["time_range_boundary_hits"] += 1
            if 0 < len(got_labels) < len(df):
                res.counters["proper_subset_results"] += 1
                nontrivial_keys += 1
            # --- laws: sequential == composite; row-local members commute and are idempotent
            if n_f >= 2 and all(b[3] for b in built):
                res.counters["laws_checked"] += 1
                cur = df
                okl = True
                for b in reversed(built):
                    okl, cur = drv.guard(res, "filter (reversed order)", b[0], cur, st if need_st else None)
                    if not okl:
                        break
                if okl and ((cur["_uid"].tolist() if "_uid" in cur.columns else cur.index.tolist()) if len(cur) else []) != got_labels:
                    res.bad("order-independent", f"{tag}: applying the row-local members in reverse order selects different rows")
            if n_f == 1 and built[0][3]:
                res.counters["laws_checked"] += 1
                ok2, again = drv.guard(res, "filter (second application)", flt, out, st if need_st else None)
                if ok2 and len(out) and ((again["_uid"].tolist() if "_uid" in again.columns else again.index.tolist()) if len(again) else []) != got_labels:
                    res.bad("idempotent", f"{tag}: applying the filter twice differs from applying it once")
        if case.get("reuse"):
            _reuse_phase(case, ctx, res, t, st, rnd, tf)
        res.nontrivial = nontrivial_keys > 0
        res.counters["nontrivial_applications"] += nontrivial_keys
        res.key = core.digest([case["files"], case["app_seed"]])
        res.sample = {"ranks": len(ranks), "applications": N_APPS, "last_specs": specs, "last_frame": kind}
    finally:
        ctx.scratch.drop(d)
    return res
