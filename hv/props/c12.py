"""C12 — iteration numbers follow profiler steps; loading trims only the trailing step."""
from __future__ import annotations

from typing import Any, Dict

from hv import core, drv, gen_sim, wf
from hv.mon import contracts
from hv.ref import load as refload
from hv.ref import raw

ID = "C12"
RULE = ("G-sim traces with 0/1/2/3/5 profiler steps, gaps of 0/1/7 between steps (events starting exactly at a step's start and end), "
        "operators before the first and after the last step, kernels launched in the last kept step but running later, launches "
        "or kernels dropped (unlinked activities), 1-3 ranks with identical step numbers, include_last_profiler_step on/off, "
        "multiprocessing on/off; oracle = iteration / kept-set recomputed from raw events (hv/ref/load.py). Non-trivial: >= 2 "
        "steps and >= 1 event dropped by trimming and >= 1 device activity kept. Distinct = hash of files + configuration.")
ASSUMPTIONS = ["well-formed regime (hv/wf.py); steps do not overlap; all ranks carry the same step set",
               "cuda_sync rows on stream -1 are not judged for their iteration number (the statement leaves their side open)"]
FLOAT_KEYS = ["files"]          # fractional-time-unit workload class (hv/shard.py)
PLAN = {"quick": {"shards": 16, "cases": 960, "timeout": 600}, "thorough": {"shards": 16, "cases": 10000, "timeout": 3000}}
FLOORS = {"quick": {"distinct_nontrivial": 100, "rows_judged": 20000, "trimmed_loads": 200, "inc_last_loads": 150, "events_dropped": 2000,
                    "starts_at_step_boundary": 100, "add_iteration.post": 400},
          "thorough": {"distinct_nontrivial": 2000, "rows_judged": 400000, "trimmed_loads": 4000, "inc_last_loads": 3000,
                       "events_dropped": 40000, "starts_at_step_boundary": 2000, "add_iteration.post": 8000}}


def setup(ctx: Any) -> None:
    import hta.common.trace as tr

    def post_iter(df):  # noqa: ANN001
        if "iteration" not in df.columns:
            return "add_iteration did not add an iteration column"
        if df["iteration"].isna().any():
            return f"iteration is NaN for events {df[df['iteration'].isna()]['index'].tolist()[:5]}"
        return None

    contracts.attach(tr, "add_iteration", "add_iteration", ctx, post=post_iter)


def gen_case(rnd, tier: str, i: Any) -> Dict[str, Any]:
    n_ranks = rnd.choice([1, 1, 2, 3])
    first_step = gen_sim.pick_first_step(rnd)
    n_steps = rnd.choice([0, 1, 2, 2, 3, 5])
    files = {}
    ragged = n_ranks > 1 and n_steps >= 2 and rnd.random() < 0.3     # ranks that recorded different (non-empty) subsets of the steps
    for r in range(n_ranks):
        fs, ns = first_step, n_steps
        if ragged and r > 0:
            ns = rnd.randint(0, n_steps)              # 0 / 1: a rank that recorded no step, or one (nothing to cut off there)
            fs = first_step + rnd.randint(0, n_steps - ns)
        p = gen_sim.random_params(rnd, tier, rank=r, first_step=fs, n_steps=ns, pre_ops=rnd.choice([1, 2]) if ragged else rnd.choice([0, 1, 2]),
                                  post_ops=rnd.choice([0, 1, 2]), step_gap=rnd.choice([(0,), (0, 1, 1, 7), (7, 30)]))
        tr = gen_sim.gen_trace(rnd, **p)
        gen_sim.drop_events(rnd, tr, p_launch=rnd.choice([0, 0, 0.15]), p_kernel=rnd.choice([0, 0, 0.15]))
        if rnd.random() < 0.2:
            # a rank without any device activity (CPU-only rank, or the device records were not collected)
            ev = tr["traceEvents"]
            tr["traceEvents"] = ev[:1] + [e for e in ev[1:] if not (e.get("ph") == "X" and e.get("cat") in ("kernel", "gpu_memcpy", "gpu_memset", "cuda_sync"))]
        files[f"rank{r}.json"] = tr
    # how the flag is spelled: the parameter is Optional[bool]; callers also pass values read from arrays / config files
    return {"files": files, "cfg": {"inc_last": rnd.random() < 0.45, "mp": rnd.random() < 0.3, "spelling": rnd.choice(["bool", "bool", "none", "numpy", "int"])},
            "ragged_steps": ragged}


def fixed_cases(tier: str):
    from hv import samples
    out = [dict(c, cfg={"inc_last": m, "mp": False}) for c in samples.sample_cases(tier) for m in (False, True)]
    if tier == "thorough":
        out = out + [{"files": {"rank0.json": gen_sim.huge_trace(22)}, "cfg": {"inc_last": False, "mp": False}, "time_unit": 1}]          # row ids beyond int16
    return out


def run_case(case: Dict[str, Any], ctx: Any) -> core.CaseResult:
    res = core.CaseResult()
    cfg = case["cfg"]
    models = {}
    for fn, tr in case["files"].items():
        m = raw.model(tr["traceEvents"])
        why = wf.well_formed(m, tr["traceEvents"])
        if why:
            res.discarded, res.discard_reason = True, "not well-formed: " + why.split(":")[0][:50]
            return res
        models[tr["distributedInfo"]["rank"]] = m
    ld = refload.loaded(models, cfg["inc_last"])
    d = ctx.scratch.new("c12")
    try:
        core.write_trace_files(d, case["files"])
        t = drv.new_trace(d)
        import numpy as _np
        sp = cfg.get("spelling", "bool")
        flag = {"bool": cfg["inc_last"], "none": True if cfg["inc_last"] else None, "numpy": _np.bool_(cfg["inc_last"]), "int": int(cfg["inc_last"])}[sp]
        if sp != "bool":
            res.counters["flag_not_spelled_as_a_python_bool"] += 1
        ok, _ = drv.guard(res, "load_traces", t.load_traces, include_last_profiler_step=flag, use_multiprocessing=cfg["mp"])
        if not ok:
            return res
        n_dropped = n_dev_kept = 0
        n_steps = 0
        for r, m in models.items():
            df = t.get_trace(r)
            exp_ids = {e.id for e in ld.kept[r]}
            got_ids = set(df["index"].tolist())
            steps = refload.step_events(m)
            n_steps = max(n_steps, len(steps))
            n_dropped += len(m) - len(exp_ids)
            n_dev_kept += sum(1 for e in ld.kept[r] if e.stream > 0)
            if got_ids != exp_ids:
                byid = {e.id: e for e in m}
                extra = sorted(got_ids - exp_ids)[:4]
                miss = sorted(exp_ids - got_ids)[:4]
                res.bad("kept-set", f"rank {r} (include_last={cfg['inc_last']}, last step starts {ld.last_step_start.get(r)} ends "
                        f"{ld.last_step_end.get(r)}): kept although they should be dropped "
                        f"{[(i, byid[i].cat, byid[i].ts, byid[i].stream) for i in extra if i in byid]}; dropped although they should be kept "
                        f"{[(i, byid[i].cat, byid[i].ts, byid[i].stream) for i in miss]}", extra=extra, missing=miss)
            if len(got_ids) != len(df):
                res.bad("kept-once", f"rank {r}: {len(df) - len(got_ids)} duplicated rows after loading")
            it = ld.iteration[r]
            byid = {e.id: e for e in m}
            bounds = {s.ts for s in steps} | {s.end for s in steps}
            nb = 0
            for i, itv in drv.rows(df, ["index", "iteration"]):
                e = byid.get(i)
                if e is None or (e.cat == "cuda_sync" and e.stream == -1):
                    continue
                res.counters["rows_judged"] += 1
                if e.stream < 0 and e.ts in bounds:
                    res.counters["starts_at_step_boundary"] += 1
                if itv != it[i]:
                    nb += 1
                    if nb <= 3:
                        res.bad("iteration", f"rank {r} event {i} ({e.cat}/{e.name}, ts {e.ts}, stream {e.stream}): iteration {itv}, expected {it[i]}; "
                                f"steps {[(s.name, s.ts, s.end) for s in steps]}", id=i, got=itv, expected=it[i])
            exp_iters = sorted({it[e.id] for e in ld.kept[r] if it[e.id] >= 0 and not (e.cat == "cuda_sync" and e.stream == -1)})
            # the rank as a user's code has it: a python int, or an element of a numpy array / DataFrame column
            import numpy as np
            r_arg = [r, np.int64(r), np.int32(r), r][(r + len(ld.kept[r])) % 4]
            if not isinstance(r_arg, int):
                res.counters["rank_given_as_numpy_integer"] += 1
                okt, df_np = drv.guard(res, "get_trace(numpy rank)", t.get_trace, r_arg)
                if okt and df_np is not t.get_trace(r):
                    res.bad("get-trace-rank-type", f"get_trace({type(r_arg).__name__}({r})) is not the frame of rank {r}")
            ok2, got_iters = drv.guard(res, "get_iterations", t.get_iterations, r_arg)
            if ok2 and [int(x) for x in got_iters] != exp_iters:
                # sync rows on stream -1 may add iterations of their own; tolerate a superset limited to those
                sync_its = {it[e.id] for e in ld.kept[r] if e.cat == "cuda_sync" and e.stream == -1 and it[e.id] >= 0}
                if not (set(exp_iters) <= {int(x) for x in got_iters} <= set(exp_iters) | sync_its):
                    res.bad("get-iterations", f"rank {r}: get_iterations()={list(got_iters)}, expected {exp_iters}")
        res.counters["events_dropped"] += n_dropped
        if ld.trimmed:
            res.counters["trimmed_loads"] += 1
            if any(ld.last_step_start[r] is None for r in models):
                res.counters["loads_with_a_rank_of_fewer_than_two_steps_beside_a_trimmed_rank"] += 1
        if cfg["inc_last"]:
            res.counters["inc_last_loads"] += 1
        res.nontrivial = n_steps >= 2 and n_dropped > 0 and n_dev_kept > 0
        res.trivial_reason = "fewer than 2 steps or nothing dropped or no device activity kept"
        res.key = core.digest([case.get("sample") or case["files"], cfg])
        if case.get("sample"):
            res.counters["real_sample_traces"] += 1
        f0 = next(iter(case["files"].values()))
        res.sample = {"cfg": cfg, "ranks": len(models), "steps": [(s.name, s.ts, s.end) for s in refload.step_events(next(iter(models.values())))],
                      "events": len(f0["traceEvents"]), "dropped_by_trimming": n_dropped, "device_kept": n_dev_kept}
    finally:
        ctx.scratch.drop(d)
    return res
