"""Child process of C19's cross-session phase: a *new* interpreter (another PYTHONHASHSEED, as every new session of a user has)
loads the trace files again, restores the archive that the parent saved and reports what it sees.
usage: python -m hv.props.c19_child <job.json>   (writes <job>.out.pkl)"""
import json
import pickle
import sys


def main() -> None:
    job = json.load(open(sys.argv[1]))
    out = {"error": None}
    try:
        import logging
        logging.disable(logging.CRITICAL)
        from hv import drv
        from hv.props import c19
        from hta.analyzers.critical_path_analysis import restore_cpgraph
        ta = drv.new_analysis(job["dir"], **({"include_last_profiler_step": True} if job["inc_last"] else {}))
        if job["pre_decode"]:
            ta.t.decode_symbol_ids(False)
        rg = restore_cpgraph(job["zip"], ta.t, job["rank"])
        out["snap"] = c19._snapshot(rg)
        out["rows"] = c19._bd_rows(rg.get_critical_path_breakdown())
        out["symbols"] = list(ta.t.symbol_table.get_sym_table())
    except BaseException as e:  # noqa: BLE001
        import traceback
        out["error"] = f"{type(e).__name__}: {e}\n{traceback.format_exc()[-1500:]}"
    with open(sys.argv[1] + ".out.pkl", "wb") as f:
        pickle.dump(out, f)


if __name__ == "__main__":
    main()
