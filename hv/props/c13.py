"""C13 — call-graph attributes (depth, height, kernel totals) agree with the tree."""
from __future__ import annotations

from typing import Any, Dict, List

from hv import core, drv, gen_sim, wf
from hv.ref import load as refload
from hv.ref import raw

ID = "C13"
RULE = ("G-sim traces (1-3 host threads, with/without an autograd thread and '## backward ##' annotations, launches without kernel, "
        "dropped launches/kernels, zero-duration kernels, epoch offsets 0 / 7 / 100 / 30000 / 1e6 / 2^31-2000 / 1.7e15 so that shifted and "
        "unshifted times differ and tiny timestamps occur) loaded with Trace.load_traces() and passed to "
        "hta.common.trace_call_graph.CallGraph; every attribute column is recomputed from the reported parent column and the loaded "
        "(shifted) times; the autograd clause uses ground truth from raw events. Non-trivial: >= 1 host event with >= 2 device "
        "descendants at depth >= 2 and a non-zero epoch offset. Distinct = hash of the files.")
ASSUMPTIONS = ["well-formed, K1-free traces (hv/wf.py)", "attributes are judged relative to the reported parent column (C03 judges the parents)"]
FLOAT_KEYS = ["files"]          # fractional-time-unit workload class (hv/shard.py)
PLAN = {"quick": {"shards": 16, "cases": 640, "timeout": 900}, "thorough": {"shards": 16, "cases": 5000, "timeout": 3400}}
FLOORS = {"quick": {"distinct_nontrivial": 100, "host_rows_judged": 8000, "device_rows_judged": 2500, "autograd_cases": 30,
                    "bwd_ops_reparented": 40, "bwd_ops_left_alone": 40, "tiny_timestamp_traces": 40, "call_graphs_from_dataframe": 100},
          "thorough": {"distinct_nontrivial": 1500, "host_rows_judged": 120000, "device_rows_judged": 40000, "autograd_cases": 450,
                       "bwd_ops_reparented": 600, "bwd_ops_left_alone": 600, "tiny_timestamp_traces": 600, "call_graphs_from_dataframe": 1500}}


def gen_case(rnd, tier: str, i: Any) -> Dict[str, Any]:
    n_ranks = rnd.choice([1, 1, 2])
    first_step = gen_sim.pick_first_step(rnd)
    n_steps = rnd.choice([0, 1, 2, 2, 3, 5])         # every rank carries the same step set
    files = {}
    for r in range(n_ranks):
        p = gen_sim.random_params(rnd, tier, rank=r, first_step=first_step, avoid_k1=True, n_steps=n_steps)
        if rnd.random() < 0.35:
            p.update(autograd=True, n_threads=rnd.choice([2, 2, 3]), n_steps=max(1, n_steps), main_autograd_op=rnd.random() < 0.4)
            if p["n_threads"] == 3 and rnd.random() < 0.6:
                p["autograd_threads"] = 2          # two autograd threads: the rank does not have "exactly one", nothing is attached
        tr = gen_sim.gen_trace(rnd, **p)
        gen_sim.drop_events(rnd, tr, p_launch=rnd.choice([0, 0, 0.1]), p_kernel=rnd.choice([0, 0, 0.1]))
        if rnd.random() < 0.25:
            # device clock slightly ahead of the host clock: some activities are stamped before their launch call begins
            launch_ts = {e["args"]["correlation"]: e["ts"] for e in tr["traceEvents"] if e.get("cat") in ("cuda_runtime", "cuda_driver")
                         and isinstance(e.get("args"), dict) and "correlation" in e["args"]}
            for e in tr["traceEvents"]:
                if e.get("cat") in ("kernel", "gpu_memcpy", "gpu_memset") and e["args"].get("correlation") in launch_ts and rnd.random() < 0.15:
                    e["ts"] = max(0, launch_ts[e["args"]["correlation"]] - rnd.choice([1, 2, 5]))
        files[f"rank{r}.json"] = tr
    # history: the call graph may be built more than once over the same loaded Trace (every call of
    # get_frequent_cuda_kernel_sequences does it)
    return {"files": files, "builds": rnd.choice([1, 1, 2, 3]), "from_df": rnd.random() < 0.3}


def fixed_cases(tier: str):
    if tier != "thorough":
        return []
    # row ids beyond int16; one with an autograd thread
    return [{"files": {"rank0.json": gen_sim.huge_trace(12)}, "builds": 2, "from_df": False, "time_unit": 1},
            {"files": {"rank0.json": gen_sim.huge_trace(13, autograd=True, n_threads=2)}, "builds": 1, "from_df": True, "time_unit": 1}]


def run_case(case: Dict[str, Any], ctx: Any) -> core.CaseResult:
    res = core.CaseResult()
    models = {}
    for fn, tr in case["files"].items():
        m = raw.model(tr["traceEvents"])
        why = wf.well_formed(m, tr["traceEvents"])
        if why:
            res.discarded, res.discard_reason = True, "not well-formed: " + why.split(":")[0][:50]
            return res
        models[tr["distributedInfo"]["rank"]] = m
    ld = refload.loaded(models, False)
    d = ctx.scratch.new("c13")
    try:
        core.write_trace_files(d, case["files"])
        t = drv.new_trace(d)
        ok, _ = drv.guard(res, "load_traces", t.load_traces, use_multiprocessing=False)
        if not ok:
            return res
        from hta.common.trace_call_graph import CallGraph
        for b in range(case.get("builds", 1)):
            ok, cg = drv.guard(res, "CallGraph" if b == 0 else f"CallGraph (build #{b + 1} on the same Trace)", CallGraph, t, None)
            if not ok:
                return res
        if case.get("builds", 1) > 1:
            res.counters["rebuilt_call_graphs"] += 1
            if any(len(x) > 127 for x in ld.kept.values()):
                res.counters["rebuilt_call_graphs_gt_127_events"] += 1
        nontrivial = False
        for r, m in models.items():
            if not ld.kept[r]:
                continue
            if _judge_rank(r, m, ld, cg, res):
                nontrivial = True
        if not res.violations:
            _judge_stack_queries(models, ld, cg, res, core.rng("c13q", len(case["files"]), sum(len(x) for x in ld.kept.values())))
        if case.get("from_df"):
            # the same call graph built from one rank's frame alone (CallGraph.from_dataframe, with and without the table)
            r = sorted(models)[-1]
            if ld.kept[r]:
                for with_table in (True, False):
                    src = t.get_trace(r)[["index", "ts", "dur", "end", "pid", "tid", "stream", "index_correlation", "name", "cat", "correlation", "iteration"]].copy()
                    if not with_table:
                        t.symbol_table.decode_df(src, create_new_columns=False)
                    ok, cg2 = drv.guard(res, f"CallGraph.from_dataframe({'with' if with_table else 'without'} symbol table)", CallGraph.from_dataframe,
                                        src, t.symbol_table if with_table else None, r)
                    if ok:
                        res.counters["call_graphs_from_dataframe"] += 1
                        _judge_rank(r, models[r], ld, cg2, res)
        res.nontrivial = nontrivial and ld.min_ts != 0
        res.trivial_reason = "no host event with >= 2 device descendants at depth >= 2, or zero epoch offset"
        res.key = core.digest(case["files"])
        if ld.min_ts + max(e.end for m in models.values() for e in m) - ld.min_ts < 40000:
            res.counters["tiny_timestamp_traces"] += 1
        f0 = next(iter(case["files"].values()))
        res.sample = {"ranks": len(models), "events": len(f0["traceEvents"]), "min_ts": ld.min_ts,
                      "threads": sorted({str(e.tid) for e in next(iter(models.values())) if e.stream == -1})[:6]}
    finally:
        ctx.scratch.drop(d)
    return res


def _judge_stack_queries(models, ld, cg, res, rnd) -> None:  # noqa: ANN001
    """get_stack_of_node(idx, rank): the node, its descendants and its ancestors - of THAT rank.  The ranks are asked in descending and
    then ascending order (an object answers for whichever rank the caller names, whatever it was asked before)."""
    ranks = [r for r in sorted(models) if ld.kept[r]]
    for r in sorted(ranks, reverse=True) + ranks:
        df = cg.trace_data.get_trace(r)
        par = {int(i): int(p) for i, p in zip(df["index"].tolist(), df["parent"].tolist())}
        stream = {int(i): int(s_) for i, s_ in zip(df["index"].tolist(), df["stream"].tolist())}
        kids: Dict[int, List[int]] = {}
        for i, p in par.items():
            kids.setdefault(p, []).append(i)
        hosts = [i for i in par if stream[i] == -1 and par[i] >= -1 and (kids.get(i) or par[i] >= 0)]
        for idx in rnd.sample(hosts, min(3, len(hosts))):
            ok, out = drv.guard(res, "get_stack_of_node", cg.get_stack_of_node, idx, r)
            if not ok:
                res.violations[-1].witness.update(rank=r, index=idx)
                return
            exp = {idx}
            stack = [idx]
            while stack:
                x = stack.pop()
                for c in kids.get(x, []):
                    if c not in exp:
                        exp.add(c)
                        stack.append(c)
            x = par[idx]
            while x >= 0 and x not in exp:
                exp.add(x)
                x = par.get(x, -1)
            got = [int(i) for i in out["index"].tolist()]
            res.counters["stack_queries"] += 1
            if len(ranks) > 1:
                res.counters["stack_queries_on_multi_rank_graphs"] += 1
            if set(got) != exp or len(got) != len(set(got)):
                res.bad("stack-of-node", f"rank {r}: get_stack_of_node({idx}, rank={r}) returned events {sorted(got)[:12]}, the node with its descendants "
                        f"and ancestors is {sorted(exp)[:12]}")
                return
            wrong = [i for i, ts_, nm in zip(got, out["ts"].tolist(), out["name"].tolist()) if (ts_, nm) != (df.at[i, "ts"], df.at[i, "name"])]
            if wrong:
                res.bad("stack-of-node-rank", f"rank {r}: get_stack_of_node({idx}, rank={r}) returned rows of another rank for events {wrong[:6]}")
                return


def _judge_rank(r, m, ld, cg, res) -> bool:  # noqa: ANN001
    df = cg.trace_data.get_trace(r)
    cols = ["index", "parent", "depth", "height", "num_kernels", "kernel_dur_sum", "first_kernel_start", "last_kernel_end", "kernel_span", "ts", "dur"]
    miss = [c for c in cols if c not in df.columns]
    if miss:
        res.bad("columns", f"rank {r}: call-graph columns missing {miss}")
        return False
    kept = {e.id: e for e in ld.kept[r]}
    link = raw.link_oracle(m)
    got = {}
    for row in drv.rows(df, cols):
        got[int(row[0])] = row
    if set(got) != set(kept):
        res.bad("rows", f"rank {r}: call graph changed the set of rows")
        return False
    parent = {i: int(g[1]) for i, g in got.items()}
    children: Dict[int, List[int]] = {}
    for i, p in parent.items():
        children.setdefault(p, []).append(i)
    shift = ld.min_ts
    # loaded times must be the shifted file times (guards the oracle's own inputs)
    host_ids = [e.id for e in kept.values() if e.stream == -1 and e.cat != "cuda_sync"]
    dev_linked = [e.id for e in kept.values() if e.stream > 0 and link[e.id] > 0 and link[e.id] in kept]
    # --- device activities are children of their host call
    for i in dev_linked:
        res.counters["device_rows_judged"] += 1
        if parent[i] != link[i]:
            res.bad("device-parent", f"rank {r}: device activity {i} ({kept[i].cat}/{kept[i].name}) has parent {parent[i]}, its linked host call is {link[i]}")
        if got[i][3] != 0:
            res.bad("device-height", f"rank {r}: device activity {i} has height {got[i][3]}, expected 0")
        # "a node's depth is its parent's depth plus one" holds for device nodes too - also after the launching thread's stack
        # was attached beneath another thread's annotation (seed C13-Q: the depth pass skipped device nodes)
        if parent[i] in got and int(got[i][2]) != int(got[parent[i]][2]) + 1:
            res.bad("device-depth", f"rank {r}: device activity {i} ({kept[i].cat}/{kept[i].name}) has depth {got[i][2]}, its parent {parent[i]} "
                    f"has depth {got[parent[i]][2]}")
    # --- depth / height / kernel aggregates from the reported tree
    memo: Dict[int, tuple] = {}

    def agg(i: int, guard: int = 0):
        if i in memo:
            return memo[i]
        e = kept[i]
        if e.stream > 0:
            out = (1, e.dur, e.ts - shift, e.end - shift, 0)
        else:
            n, s, first, last, h = 0, 0, None, None, 1
            for c in children.get(i, []):
                if guard > 500:
                    break
                cn, cs, cf, cl, ch = agg(c, guard + 1)
                n, s = n + cn, s + cs
                if cn:
                    first = cf if first is None else min(first, cf)
                    last = cl if last is None else max(last, cl)
                h = max(h, ch + 1)
            out = (n, s, first, last, h)
        memo[i] = out
        return out

    deep = False
    nbad = 0
    for i in host_ids:
        res.counters["host_rows_judged"] += 1
        _, p, depth, height, nk, ksum, kfirst, klast, kspan, ts, dur = got[i]
        errs = []
        pd_ = int(got[p][2]) if p in got else -1
        if p >= 0 and p not in got:
            errs.append(f"parent {p} is not a row")
        if depth != pd_ + 1:
            errs.append(f"depth {depth} != parent depth {pd_} + 1")
        n, s, first, last, h = agg(i)
        if height != h:
            errs.append(f"height {height} != {h}")
        exp = (n, s, first if n else -1, last if n else -1, (last - first) if n else 0)
        if (nk, ksum, kfirst, klast, kspan) != exp:
            errs.append(f"(num_kernels, kernel_dur_sum, first_kernel_start, last_kernel_end, kernel_span)=({nk}, {ksum}, {kfirst}, {klast}, {kspan}) "
                        f"!= {exp} over device descendants (loaded times, shift {shift})")
        if n >= 2 and depth >= 2:
            deep = True
        if errs:
            nbad += 1
            if nbad <= 3:
                res.bad("attributes", f"rank {r} host event {i} ({kept[i].cat}/{kept[i].name} tid {kept[i].tid}): " + "; ".join(errs), id=i)
    # --- autograd clause
    threads = wf.host_threads(list(kept.values()))
    main = [k for k, th in threads.items() if any(isinstance(e.name, str) and e.name.startswith("ProfilerStep#") for e in th)]
    bwd = [k for k, th in threads.items() if k not in main and any(isinstance(e.name, str) and "autograd::" in e.name for e in th)]
    if len(main) == 1 and len(bwd) == 1:
        res.counters["autograd_cases"] += 1
        mth, bth = threads[main[0]], threads[bwd[0]]
        anns = [e for e in mth if e.name.startswith("## backward ##")] or [e for e in mth if e.name.startswith("ProfilerStep#")]
        tp = wf.tree_parents(bth)
        for e in bth:
            if tp[e.id] != -1:
                continue
            inside = [a for a in anns if a.ts <= e.ts and e.end <= a.end]
            if inside:
                res.counters["bwd_ops_reparented"] += 1
                if parent[e.id] not in {a.id for a in inside}:
                    res.bad("autograd-attach", f"rank {r}: autograd-thread top-level operator {e.id} [{e.ts - shift},{e.end - shift}] lies within annotation "
                            f"{inside[0].id} ({inside[0].name}) but its parent is {parent[e.id]}")
            else:
                res.counters["bwd_ops_left_alone"] += 1
                if parent[e.id] >= 0:
                    res.bad("autograd-attach", f"rank {r}: autograd-thread top-level operator {e.id} lies within no backward/step annotation but was "
                            f"attached beneath event {parent[e.id]}")
    elif len(bwd) >= 1:
        res.counters["autograd_ambiguous_threads"] += 1
    return deep
