"""C07 — communication/computation overlap is the exact time ratio."""
from __future__ import annotations

from typing import Any, Dict

from hv import core, drv, gen_int
from hv.props import c04
from hv.ref import intervals as iv

ID = "C07"
RULE = ("G-int arrangements with communication kernels (nccl*Kernel names) and computation kernels across 1-4 streams, all tie "
        "patterns (touching, identical, nested, zero-length), 1-4 ranks; oracle = sweep: time with >= 1 comm and >= 1 comp running / "
        "time with >= 1 comm running, x100, compared after round(.,2); plus the merge_kernel_intervals contract. Non-trivial: "
        "overlap strictly between 0 and 100 on some rank. Distinct = hash of the files.")
ASSUMPTIONS = ["every rank has communication time > 0 (else the ratio divides by zero: out of regime)", "type by the documented name rules"]
FLOAT_KEYS = ["files"]          # fractional-time-unit workload class (hv/shard.py)
PLAN = {"quick": {"shards": 16, "cases": 960, "timeout": 600}, "thorough": {"shards": 16, "cases": 10000, "timeout": 3000}}
FLOORS = {"quick": {"distinct_nontrivial": 120, "ranks_judged": 400, "merge_kernel_intervals.post": 800, "with_touching": 100, "with_zero_length": 80},
          "thorough": {"distinct_nontrivial": 2500, "ranks_judged": 8000, "merge_kernel_intervals.post": 16000, "with_touching": 2000, "with_zero_length": 1600}}


def setup(ctx: Any) -> None:
    c04.install_merge_contract(ctx)


def gen_case(rnd, tier: str, i: Any) -> Dict[str, Any]:
    if rnd.random() < 0.25:
        # traces with host side, profiler steps (the loader trims the trailing one) and CUDA-graph launches whose kernels share
        # one correlation id
        from hv import gen_sim
        n_ranks = rnd.choice([1, 2])
        first_step, n_steps = gen_sim.pick_first_step(rnd), rnd.choice([0, 2, 3])
        files = {}
        for r in range(n_ranks):
            p = gen_sim.random_params(rnd, tier, rank=r, first_step=first_step, n_steps=n_steps, graph_launch=True, n_streams=rnd.choice([2, 3, 4]),
                                      ops_per_step=rnd.choice([(3, 8), (6, 12)]), p_sync=0.0, p_event=0.0)
            files[f"rank{r}.json"] = gen_sim.gen_trace(rnd, **p)
        return {"files": files, "pre_calls": [], "gsim": True, "inc_last": rnd.random() < 0.4}
    c = gen_int.gen_case(rnd, tier, need_comm=True, annotations=rnd.random() < 0.5)
    c["pre_calls"] = rnd.sample(c04.PRE_CALLS, rnd.choice([0, 0, 1, 2, 3]))
    return c


def fixed_cases(tier: str):
    from hv import samples
    out = samples.sample_cases(tier)
    if tier == "thorough":
        out = out + [{"kind": "repo_tests", "file": "test_trace_analysis.py"}]      # with the interval-merge contract attached
    return out


def run_case(case: Dict[str, Any], ctx: Any) -> core.CaseResult:
    res = core.CaseResult()
    if case.get("kind") == "repo_tests":
        from hv.mon import repotests
        res.key = "repo_tests:" + case["file"]
        repotests.run(case["file"], res, ctx)
        return res
    per_rank = c04.kept_activities(case, bool(case.get("inc_last")))
    if case.get("inc_last"):
        res.counters["loads_including_last_step"] += 1
    if case.get("gsim"):
        res.counters["cases_with_host_side_steps_and_graph_launches"] += 1
    exp = {}
    for r, acts in per_rank.items():
        typed = [(e.ts, e.end, iv.kernel_type(e.name)) for e in acts]
        comm = iv.measure([(a, b) for a, b, t in typed if t == "COMMUNICATION"])
        if comm == 0:
            res.discarded, res.discard_reason = True, "communication time == 0 on a rank"
            return res
        seg = iv.segments(typed, ["COMMUNICATION", "COMPUTATION"])
        both = sum(v for k, v in seg.items() if k == frozenset(["COMMUNICATION", "COMPUTATION"]))
        exp[r] = (both, comm)
    d = ctx.scratch.new("c07")
    try:
        core.write_trace_files(d, case["files"])
        ok, ta = drv.guard(res, "TraceAnalysis(load)", drv.new_analysis, d, **({"include_last_profiler_step": True} if case.get("inc_last") else {}))
        if not ok:
            return res
        for nm in case.get("pre_calls", []):
            c04.pre_call(ta, nm, sorted(per_rank))
        if case.get("pre_calls"):
            res.counters["calls_after_history"] += 1
        ok, ov = drv.guard(res, "get_comm_comp_overlap", ta.get_comm_comp_overlap, visualize=False)
        if not ok:
            return res
        nontrivial = False
        for r, (both, comm) in exp.items():
            res.counters["ranks_judged"] += 1
            c04.tie_stats(per_rank[r], res)
            rows = ov[ov["rank"] == r]
            if len(rows) != 1:
                res.bad("one-row-per-rank", f"rank {r}: {len(rows)} rows")
                continue
            got = float(rows["comp_comm_overlap_pctg"].iloc[0])
            want = round(100 * both / comm, 2)
            if not (abs(got - 100 * both / comm) <= 0.005 + 1e-9):                      # two decimals, either rounding of .xx5
                res.bad("overlap-ratio", f"rank {r}: overlap {got}% but comm&comp time / comm time = {both}/{comm} -> {want}% "
                        f"(activities {sorted((e.ts, e.end, iv.kernel_type(e.name)[:4], e.stream) for e in per_rank[r] if iv.kernel_type(e.name)[:3] == 'COM')[:14]})")
            if not (0 <= got <= 100):
                res.bad("overlap-range", f"rank {r}: overlap {got}% outside [0, 100]")
            if 0 < both < comm:
                nontrivial = True
        res.nontrivial = nontrivial
        res.trivial_reason = "overlap is 0 or 100 on every rank"
        res.key = core.digest(case.get("sample") or case["files"])
        if case.get("sample"):
            res.counters["real_sample_traces"] += 1
        r0 = next(iter(exp))
        res.sample = {"ranks": len(exp), "rank": r0, "overlap_time/comm_time": list(exp[r0]),
                      "activities[ts,end,type,stream]": sorted((e.ts, e.end, iv.kernel_type(e.name), e.stream) for e in per_rank[r0])[:10]}
    finally:
        ctx.scratch.drop(d)
    return res
