"""C03 — call stack: parent is the innermost enclosing event on the thread (both builders)."""
from __future__ import annotations

import itertools
from typing import Any, Dict, List, Optional

from hv import core, drv, gen_nest, gen_sim, wf
from hv.kf import k1_instants
from hv.ref import raw

ID = "C03"
RULE = ("G-nest: recursive laminar span families of 1-60 events over a time range of 3..40 so that shared starts/ends, identical "
        "spans, back-to-back siblings and zero-duration events at start / end / inside / alone / stacked all occur, ids "
        "sequential / shuffled / reversed / sparse; both builders (hta.common.call_stack and hta.common.trace_call_stack) built "
        "directly on frames, plus parent/depth columns through both CallGraph classes on loaded G-sim traces; thorough adds the "
        "exhaustive enumeration of all laminar families of <= 4 spans over 0..3. Oracle = innermost-enclosing parent computed "
        "pairwise from the spans. Non-trivial: >= 1 pair of events sharing an endpoint instant. Distinct = hash of the rows.")
ASSUMPTIONS = ["spans of the thread are properly nested (generator guarantees; re-checked)",
               "known finding K1 (zero-duration event at an instant where one span ends and another begins) is reported as KNOWN-FINDING"]
PLAN = {"quick": {"shards": 16, "cases": 8000, "timeout": 900}, "thorough": {"shards": 16, "cases": 60000, "timeout": 3400}}
_TIES = ("shared_start", "shared_end", "identical", "touching", "zero_at_start", "zero_at_end", "zero_inside", "zero_alone", "zero_stacked")
FLOORS = {
    "quick": dict({"distinct_nontrivial": 1000, "builder_new_runs": 2000, "builder_old_runs": 2000, "callgraph_runs": 40, "frames_not_in_id_order": 1000, "multi_rank_callgraphs": 40, "node_maps_judged": 100},
                  **{f"tie_{k}": 20 for k in _TIES}),
    "thorough": dict({"distinct_nontrivial": 15000, "builder_new_runs": 30000, "builder_old_runs": 30000, "callgraph_runs": 500, "frames_not_in_id_order": 10000, "multi_rank_callgraphs": 400, "node_maps_judged": 1000},
                     **{f"tie_{k}": 500 for k in _TIES}),
}


# ------------------------------------------------------------------ oracle
def oracle_parents(rows: List[List[int]]) -> Dict[int, int]:
    """positive-duration events: innermost containing span; identical spans nest in id order."""
    pos = [r for r in rows if r[2] > r[1]]
    par = {}
    for i, a, b in pos:
        best = None
        for j, c, d in pos:
            if j == i:
                continue
            if c <= a and b <= d and ((c, d) != (a, b) or j < i):
                key = (d - c, -j)
                if best is None or key < best[0]:
                    best = (key, j)
        par[i] = best[1] if best else -1
    return par


def judge(rows: List[List[int]], parent: Dict[int, int], depth: Dict[int, int], children: Dict[int, List[int]], who: str,
          res: core.CaseResult) -> None:
    ids = [r[0] for r in rows]
    span = {i: (a, b) for i, a, b in rows}
    wrong: List[int] = []
    msgs: List[str] = []
    missing = [i for i in ids if i not in parent]
    extra = [i for i in parent if i not in span]
    if missing or extra:
        res.bad("every-event-once", f"{who}: events missing from the call stack {missing[:5]}, unknown nodes {extra[:5]}",
                spans=rows, wrong_ids=missing + extra, builder=who)
        return
    cnt: Dict[int, int] = {}
    for p, ch in children.items():
        for c in ch:
            cnt[c] = cnt.get(c, 0) + 1
            if c in parent and parent[c] != p:
                msgs.append(f"event {c} listed as child of {p} but its parent is {parent[c]}")
                wrong.append(c)
    for i in ids:
        if cnt.get(i, 0) != 1:
            msgs.append(f"event {i} appears {cnt.get(i, 0)} times in children lists")
            wrong.append(i)
    exp = oracle_parents(rows)
    for i, p in exp.items():
        if parent[i] != p:
            msgs.append(f"event {i} {span[i]}: parent {parent[i]} {span.get(parent[i], 'root')}, expected {p} {span.get(p, 'root')}")
            wrong.append(i)
    pos = [r for r in rows if r[2] > r[1]]
    for i, a, b in rows:
        if a != b:
            continue
        p = parent[i]
        if p >= 0:
            pa, pb = span[p]
            if not (pa <= a <= pb):
                msgs.append(f"zero-duration event {i} at {a} placed under {p} {span[p]} which does not contain it")
                wrong.append(i)
        elif any(c < a < d for _, c, d in pos):
            msgs.append(f"zero-duration event {i} at {a} placed at the root although a span strictly contains it")
            wrong.append(i)
    for i in ids:
        n, q, guard = 0, parent[i], 0
        while q >= 0 and guard < 1000:
            n, q, guard = n + 1, parent.get(q, -1), guard + 1
        if depth.get(i) != n:
            msgs.append(f"event {i}: depth {depth.get(i)} but {n} ancestors")
            wrong.append(i)
    if msgs:
        res.bad(f"parent:{who}", f"{who}: " + "; ".join(msgs[:4]) + f"  rows={rows}", spans=rows, wrong_ids=sorted(set(wrong)), builder=who)


# ------------------------------------------------------------------ running the real builders
TIME_UNIT = {"scale": 1}           # 1: integer microseconds; 0.125 / 0.375: float columns as with HTA_DISABLE_NS_ROUNDING=1 (dyadic: exact)
ROW_ORDER = {"mode": "id"}          # how the frame's rows are ordered relative to the event ids (set per case)


def _frame(rows: List[List[int]]):
    import pandas as pd

    if ROW_ORDER["mode"] == "reversed":
        rows = rows[::-1]
    elif ROW_ORDER["mode"] == "shuffled":
        rows = list(rows)
        core.rng("roworder", len(rows), rows[0] if rows else 0).shuffle(rows)
    sc = TIME_UNIT["scale"]
    df = pd.DataFrame({"index": [r[0] for r in rows], "ts": [r[1] * sc for r in rows], "dur": [(r[2] - r[1]) * sc for r in rows],
                       "pid": 1, "tid": 2, "stream": -1, "index_correlation": -1, "name": 0, "cat": 0})
    df = df.set_index("index", drop=False)
    df.index.name = None
    return df


def run_new(rows):  # noqa: ANN001
    import pandas as pd
    from hta.common import trace_call_stack as new
    from hta.common.trace_symbol_table import TraceSymbolTable

    df = _frame(rows)
    csg = new.CallStackGraph(df, new.CallStackIdentity(0, 1, 2), pd.DataFrame({"cpu_index": [], "gpu_index": []}), df.copy(),
                             TraceSymbolTable(), save_call_stack_to_df=False)
    nodes = csg.get_nodes()
    parent = {int(k): (int(v.parent) if v.parent >= 0 else -1) for k, v in nodes.items() if k >= 0}
    depth = {int(k): int(v.depth) for k, v in nodes.items() if k >= 0}
    children = {(int(k) if k >= 0 else -1): [int(c) for c in v.children] for k, v in nodes.items()}
    LAST["csg"] = csg
    return parent, depth, children


def run_old(rows):  # noqa: ANN001
    from hta.common import call_stack as old

    df = _frame(rows)
    csg = old.CallStackGraph(df, old.CallStackIdentity(0, 1, 2))
    nodes = csg.get_nodes()
    parent = {int(k): int(v.parent) for k, v in nodes.items() if k >= 0}
    depth = {int(k): int(v.depth) for k, v in nodes.items() if k >= 0}
    children = {int(k): [int(c) for c in v.children] for k, v in nodes.items()}
    LAST["csg"] = csg
    return parent, depth, children


BUILDERS = {"new": run_new, "old": run_old}
LAST: Dict[str, Any] = {"csg": None}


def accessors(csg, rows, parent, depth, who: str, res: core.CaseResult) -> None:  # noqa: ANN001
    """The call stack as a user walks it: get_parent / get_children / get_path_to_root / get_paths_to_leaves / get_leaf_nodes /
    get_depth / dfs_traverse must all describe the same tree as the node map that `judge` compares with the oracle
    (every event exactly once, depth = number of ancestors)."""
    ids = [r[0] for r in rows]
    start = {r[0]: r[1] for r in rows}
    kids: Dict[int, List[int]] = {}
    for i in ids:
        kids.setdefault(parent.get(i, -1), []).append(i)
    bad: List[str] = []
    for i in ids:
        if i not in parent:
            continue
        gp = int(csg.get_parent(i))
        if (gp if gp >= 0 else -1) != parent[i]:
            bad.append(f"get_parent({i})={gp}, node map says {parent[i]}")
        gc = sorted(int(c) for c in csg.get_children(i))
        if gc != sorted(kids.get(i, [])):
            bad.append(f"get_children({i})={gc}, events whose parent is {i}: {sorted(kids.get(i, []))}")
        path = [int(x) for x in csg.get_path_to_root(i)]
        exp_path = [i]
        while parent.get(exp_path[-1], -1) >= 0:
            exp_path.append(parent[exp_path[-1]])
        if path[:len(exp_path)] != exp_path or any(x >= 0 for x in path[len(exp_path):]) or len(path) != len(exp_path) + 1:
            bad.append(f"get_path_to_root({i})={path}, ancestors are {exp_path} (+ the thread root)")
        elif len(exp_path) - 1 != depth.get(i, -99):
            bad.append(f"get_path_to_root({i}) has {len(exp_path) - 1} ancestors, depth says {depth.get(i)}")
        leaves = sorted(int(x) for x in csg.get_leaf_nodes(i))
        sub, stack = [], [i]
        while stack:
            x = stack.pop()
            sub.append(x)
            stack.extend(kids.get(x, []))
        exp_leaves = sorted(x for x in sub if not kids.get(x))
        if leaves != exp_leaves:
            bad.append(f"get_leaf_nodes({i})={leaves[:8]}, childless descendants are {exp_leaves[:8]}")
        res.counters["accessor_nodes_judged"] += 1
    # depth-first traversal: every node entered and left exactly once, parent entered before and left after its children,
    # siblings in start-time order
    entered: List[int] = []
    left: List[int] = []
    csg.dfs_traverse(lambda nid, node: entered.append(int(nid)), lambda nid, node: left.append(int(nid)))
    ent = [x for x in entered if x >= 0]
    if sorted(ent) != sorted(i for i in ids if i in parent) or sorted(x for x in left if x >= 0) != sorted(ent):
        bad.append(f"dfs_traverse entered {len(ent)} / left {len([x for x in left if x >= 0])} nodes, the call stack has {len(ids)} (each exactly once)")
    else:
        pos_in = {x: k for k, x in enumerate(ent)}
        pos_out = {x: k for k, x in enumerate(x for x in left if x >= 0)}
        for i in ent:
            p = parent.get(i, -1)
            if p >= 0 and not (pos_in[p] < pos_in[i] and pos_out[p] > pos_out[i]):
                bad.append(f"dfs_traverse: event {i} is not visited inside its parent {p}")
                break
        for p, cs in kids.items():
            order = sorted(cs, key=lambda x: pos_in.get(x, 0))
            if any(start[a] > start[b] for a, b in zip(order, order[1:])):
                bad.append(f"dfs_traverse visits the children of {p} out of start-time order: {order}")
                break
    try:
        ds = csg.get_depth()
        got = {int(k): int(v) for k, v in ds.items() if int(k) >= 0}
        dd = {i: (got.get(i), depth[i]) for i in ids if i in depth and got.get(i) != depth[i]}
        if dd:
            bad.append(f"get_depth() differs from the node map (reported, node map): {dict(list(dd.items())[:4])}")
    except KeyError:
        pass                                        # new builder without saved stack columns: the series is indexed by row label
    if bad:
        res.bad(f"accessors:{who}", f"{who}: " + "; ".join(bad[:4]) + f"  rows={rows}", spans=rows, builder=who,
                wrong_ids=[])


def gen_case(rnd, tier: str, i: Any) -> Dict[str, Any]:
    if isinstance(i, int) and i % 50 == 7:
        # a loaded G-sim trace through both CallGraph classes
        p = gen_sim.random_params(rnd, tier, autograd=False, avoid_k1=True, p_zero=rnd.choice([0.1, 0.3]),
                                  tight=rnd.random() < 0.5, n_steps=rnd.choice([0, 1, 2]), first_step=rnd.randint(1, 300))
        p2 = dict(p, rank=1, n_threads=rnd.choice([1, 2, 3]), max_depth=rnd.choice([1, 3, 5]), multi_process=rnd.random() < 0.5)
        return {"kind": "callgraph", "trace": gen_sim.gen_trace(rnd, **p), "trace2": gen_sim.gen_trace(rnd, **p2) if rnd.random() < 0.7 else None}
    tmax = rnd.choice([3, 5, 8, 12, 40])
    spans = gen_nest.gen_family(rnd, rnd.randint(1, rnd.choice([6, 12, 60])), tmax, rnd.choice([0.0, 0.15, 0.35]))
    if not spans:
        spans = [(0, tmax)]
    rows = gen_nest.assign_ids(rnd, spans, rnd.choice(["seq", "shuffled", "reversed", "sparse"]))
    return {"kind": "frame", "rows": rows, "row_order": rnd.choice(["id", "id", "reversed", "shuffled"]),
            "time_unit": rnd.choice([1, 1, 1, 0.125, 0.375, 2.5])}


def fixed_cases(tier: str):
    if tier != "thorough":
        return [{"kind": "enum", "n": n, "tmax": 2} for n in (1, 2, 3)]
    return [{"kind": "enum", "n": n, "tmax": 3} for n in (1, 2, 3, 4)] + [
        # row ids beyond int16 (parents > 32767 in the saved stack columns)
        {"kind": "callgraph", "trace": gen_sim.huge_trace(11, p_zero=0.1), "trace2": None}]


def _run_builder(who: str, fn, rows: List[List[int]], res: core.CaseResult, do_meta: bool) -> None:  # noqa: ANN001
    ok, out = drv.guard(res, f"CallStackGraph[{who}]", fn, rows)
    res.counters[f"builder_{who}_runs"] += 1
    if not ok:
        res.violations[-1].witness.update(spans=rows, builder=who)
        return
    parent, depth, children = out
    judge(rows, parent, depth, children, who, res)
    if not res.violations and LAST["csg"] is not None:
        ok3, _ = drv.guard(res, f"CallStackGraph[{who}] accessors", accessors, LAST["csg"], rows, parent, depth, who, res)
        if not ok3:
            res.violations[-1].witness.update(spans=rows, builder=who)
    LAST["csg"] = None
    if do_meta and any(r[1] == r[2] for r in rows):
        # metamorphic: removing the zero-duration events leaves every positive event's parent unchanged
        rows2 = [r for r in rows if r[2] > r[1]]
        if rows2:
            ok2, out2 = drv.guard(res, f"CallStackGraph[{who}] without zero-duration events", fn, rows2)
            if ok2:
                diff = [i for i in out2[0] if _pos_parent(parent, rows, i) != out2[0][i]]
                if diff:
                    res.bad(f"zero-duration-neutral:{who}", f"{who}: parents of positive-duration events {diff[:5]} change when the "
                            f"zero-duration events are removed; rows={rows}", spans=rows, wrong_ids=diff, builder=who)


def _run_rows(rows: List[List[int]], res: core.CaseResult, do_meta: bool = True) -> None:
    for who, fn in BUILDERS.items():
        sub = core.CaseResult()
        _run_builder(who, fn, rows, sub, do_meta)
        res.counters.update(sub.counters)
        inst = k1_instants(rows)
        if sub.violations and inst:
            # K1 attribution test: drop only the zero-duration events sitting on K1 instants and re-judge the real
            # builder; if everything is right then, the discrepancy is the recorded K1 mechanism and nothing else.
            rows_wo = [r for r in rows if not (r[1] == r[2] and r[1] in inst)]
            chk = core.CaseResult()
            _run_builder(who, fn, rows_wo, chk, do_meta)
            if not chk.violations:
                for v in sub.violations:
                    v.witness["k1_repair_clean"] = True
                    v.witness["k1_instants"] = sorted(inst)
        res.violations.extend(sub.violations)


def _pos_parent(parent: Dict[int, int], rows, i: int) -> int:  # noqa: ANN001
    """nearest positive-duration ancestor"""
    dur = {r[0]: r[2] - r[1] for r in rows}
    p = parent.get(i, -1)
    while p >= 0 and dur.get(p, 1) == 0:
        p = parent.get(p, -1)
    return p


def run_case(case: Dict[str, Any], ctx: Any) -> core.CaseResult:
    res = core.CaseResult()
    if case["kind"] == "frame":
        rows = case["rows"]
        ties = gen_nest.tie_classes(rows)
        for k, v in ties.items():
            if v:
                res.counters[f"tie_{k}"] += 1
        res.nontrivial = any(ties.values())
        res.trivial_reason = "no shared endpoint instant"
        res.key = core.digest(rows)
        res.sample = {"rows[id,ts,end]": rows, "row_order": case.get("row_order", "id"), "time_unit": case.get("time_unit", 1)}
        ROW_ORDER["mode"] = case.get("row_order", "id")
        TIME_UNIT["scale"] = case.get("time_unit", 1)
        if ROW_ORDER["mode"] != "id":
            res.counters["frames_not_in_id_order"] += 1
        if TIME_UNIT["scale"] != 1:
            res.counters["float_time_frames"] += 1
        try:
            _run_rows(rows, res)
        finally:
            ROW_ORDER["mode"] = "id"
            TIME_UNIT["scale"] = 1
    elif case["kind"] == "enum":
        n_fam = 0
        for fam in gen_nest.enumerate_families(case["n"], case["tmax"]):
            for perm in ([list(range(len(fam)))] if len(fam) > 3 else itertools.permutations(range(len(fam)))):
                rows = sorted([[perm[k], a, b] for k, (a, b) in enumerate(fam)])
                n_fam += 1
                sub = core.CaseResult()
                _run_rows(rows, sub, do_meta=False)
                res.violations.extend(sub.violations[:2])
                res.counters.update(sub.counters)
                if len(res.violations) > 40:
                    break
        res.counters["enumerated_families"] += n_fam
        res.nontrivial = True
        res.key = core.digest(case)
        res.sample = {"enumeration": case, "families": n_fam}
        ctx.notes.setdefault("exhaustive_subspace", []).append(f"all laminar families of {case['n']} spans over 0..{case['tmax']}: {n_fam} id-assignments")
    else:
        _run_callgraph(case, ctx, res)
    return res


def _run_callgraph(case, ctx, res) -> None:  # noqa: ANN001
    traces = [t for t in (case["trace"], case.get("trace2")) if t]
    models = {}
    for tr in traces:
        m = raw.model(tr["traceEvents"])
        why = wf.well_formed(m, tr["traceEvents"])
        if why:
            res.discarded, res.discard_reason = True, "not well-formed: " + why.split(":")[0]
            return
        models[tr["distributedInfo"]["rank"]] = m
    from hv.ref import load as refload
    ld = refload.loaded(models, False)
    d = ctx.scratch.new("c03")
    try:
        core.write_trace_files(d, {f"rank{tr['distributedInfo']['rank']}.json": tr for tr in traces})
        for which in ("old", "new"):
            t = drv.new_trace(d)
            ok, _ = drv.guard(res, "load_traces", t.load_traces, use_multiprocessing=False)
            if not ok:
                return
            if which == "old":
                from hta.common.call_stack import CallGraph
            else:
                from hta.common.trace_call_graph import CallGraph
            ranks = sorted(models)
            ok, cg = drv.guard(res, f"CallGraph[{which}]", CallGraph, t, ranks)
            res.counters["callgraph_runs"] += 1
            if len(ranks) > 1:
                res.counters["multi_rank_callgraphs"] += 1
            if not ok:
                continue
            for r in ranks:
                df = cg.trace_data.get_trace(r)
                have = {i: (int(p), int(dp)) for i, p, dp in drv.rows(df, ["index", "parent", "depth"]) if p == p and dp == dp}
                kept = {e.id for e in ld.kept[r]}
                node_maps = []
                if which == "new":
                    node_maps.append(("rank_to_nodes", cg.rank_to_nodes.get(r, {})))
                    for csg in cg.get_call_stacks(rank=r):
                        node_maps.append((f"get_call_stacks(rank={r}) pid/tid {csg.identity.pid}/{csg.identity.tid}", csg.get_nodes()))
                for key, th in wf.host_threads([e for e in models[r] if e.id in kept]).items():
                    rows = sorted([e.id, e.ts, e.end] for e in th)
                    parent = {i: (have[i][0] if have[i][0] >= 0 else -1) for i, _, _ in rows if i in have}
                    depth = {i: have[i][1] for i, _, _ in rows if i in have}
                    children: Dict[int, List[int]] = {}
                    for c, p in parent.items():
                        children.setdefault(p, []).append(c)
                    n_before = len(res.violations)
                    judge(rows, parent, depth, children, f"CallGraph[{which}] rank {r} thread {key} (parent/depth columns)", res)
                    # known finding K4: attribution data for its classifier (the thread's (pid, tid) pair is also that of device
                    # records on a stream, and this is the builder behind critical-path analysis)
                    clash = any(e.stream > 0 and (e.pid, e.tid) == key for e in models[r])
                    if clash:
                        res.counters[f"host_threads_sharing_pid_tid_with_a_device_stream_{which}"] += 1
                    for v_ in res.violations[n_before:]:
                        v_.witness.update(shares_pid_tid_with_device_stream=clash, old_builder=(which == "old"))
                    ids = {i for i, _, _ in rows}
                    for label, nodes in node_maps:
                        if "get_call_stacks" in label and not (ids & set(nodes)) and f"/{key[1]}" not in label:
                            continue            # another thread's stack object
                        if "get_call_stacks" in label and f"{key[0]}/{key[1]}" not in label:
                            continue
                        pn = {int(i): (int(n.parent) if n.parent >= 0 else -1) for i, n in nodes.items() if int(i) in ids}
                        dn = {int(i): int(n.depth) for i, n in nodes.items() if int(i) in ids}
                        cn: Dict[int, List[int]] = {}
                        for i, n in nodes.items():
                            if int(i) in ids or int(i) < 0:
                                kids = [int(c) for c in n.children if int(c) in ids]
                                if kids:
                                    cn[int(i) if int(i) >= 0 else -1] = cn.get(int(i) if int(i) >= 0 else -1, []) + kids
                        judge(rows, pn, dn, cn, f"CallGraph[new] rank {r} thread {key} ({label})", res)
                        res.counters["node_maps_judged"] += 1
        res.nontrivial = True
        res.key = core.digest(traces)
        res.sample = {"callgraph_on_gsim_events": [len(tr["traceEvents"]) for tr in traces]}
    finally:
        ctx.scratch.drop(d)
