"""Reference model for the critical-path properties (C08-C10): window selection, analysed events,
expected nodes, expected host-side chain (operator spans + dependencies), type discipline of device-side
edges, independent longest path.  Works on the *loaded view* of one rank: events with shifted times.
No pandas, no networkx, nothing shared with hta."""
from __future__ import annotations

from dataclasses import dataclass, field
from typing import Any, Dict, List, Optional, Set, Tuple

from hv.ref.raw import Ev, link_oracle
from hv import wf

BLOCKING = {"cudaDeviceSynchronize", "cudaStreamSynchronize", "cudaEventQuery", "cudaEventSynchronize", "cudaMemcpy", "cudaMemcpyAsync"}
NODE_CATS = {"cpu_op", "cuda_runtime", "cuda_driver"}
T_OP, T_DEP, T_LAUNCH, T_KK, T_SYNC = ("critical_path_operator", "critical_path_dependency", "critical_path_kernel_launch_delay",
                                       "critical_path_kernel_kernel_delay", "critical_path_sync_dependency")
Node = Tuple[int, bool]          # (event id, is_start)


@dataclass
class View:
    """Loaded view of one rank: events (shifted), links among the kept events."""
    evs: List[Ev]
    byid: Dict[int, Ev] = field(default_factory=dict)
    link: Dict[int, int] = field(default_factory=dict)

    def __post_init__(self) -> None:
        self.byid = {e.id: e for e in self.evs}


def make_view(kept: List[Ev], all_evs: List[Ev], min_ts: int) -> View:
    from dataclasses import replace

    link_all = link_oracle(all_evs)            # links are computed at parse time, before trimming
    evs = [replace(e, ts=e.ts - min_ts) for e in kept]
    v = View(evs)
    v.link = {e.id: link_all[e.id] for e in evs}
    return v


def annotation_instances(v: View, annotation: str) -> List[Ev]:
    """Events whose name contains `annotation`, in frame order (= file order for host events)."""
    return sorted((e for e in v.evs if isinstance(e.name, str) and annotation in e.name), key=lambda e: e.id)


def window(v: View, annotation: str, inst: Tuple[int, int]) -> Optional[Tuple[int, int]]:
    if annotation == "":
        return min(e.ts for e in v.evs), max(e.end for e in v.evs)
    ann = annotation_instances(v, annotation)[inst[0]: inst[1] + 1]
    if not ann:
        return None
    return min(e.ts for e in ann), max(e.end for e in ann)


@dataclass
class Expect:
    clipped_host: List[Ev]
    clipped_dev: List[Ev]
    analysed: List[Ev]
    nodes: Dict[Node, int]                       # node -> ts
    span_edges: Dict[Tuple[Node, Node], int]     # host chain edges -> expected weight
    dep_edges: Set[Tuple[Node, Node]]
    attribution: Dict[Tuple[Node, Node], int]    # expected attributed event for host chain edges
    parents: Dict[int, int]


def expect(v: View, win: Tuple[int, int]) -> Expect:
    w0, w1 = win
    host = [e for e in v.evs if e.stream == -1 and w0 <= e.ts <= w1 and e.dur > 0]
    hostset = {e.id for e in v.evs if e.stream == -1}
    dev = []
    for e in v.evs:
        if e.stream == -1:
            continue
        l = v.link.get(e.id, -1)
        rt = v.byid.get(l) if l > 0 and l in hostset else None
        if (rt is not None and w0 <= rt.ts <= w1 and rt.dur > 0) or e.name == "Stream Wait Event":
            dev.append(e)
    analysed = [e for e in host if e.cat in NODE_CATS] + [e for e in dev if v.link.get(e.id, -1) >= 0]
    nodes: Dict[Node, int] = {}
    for e in analysed:
        nodes[(e.id, True)] = e.ts
        nodes[(e.id, False)] = e.end
    an_ids = {e.id for e in analysed}
    span_edges: Dict[Tuple[Node, Node], int] = {}
    deps: Set[Tuple[Node, Node]] = set()
    attr: Dict[Tuple[Node, Node], int] = {}
    parents_all: Dict[int, int] = {}
    threads: Dict[Tuple, List[Ev]] = {}
    for e in host:
        threads.setdefault((e.pid, e.tid), []).append(e)
    for key, th in threads.items():
        par = wf.tree_parents(th)
        parents_all.update(par)
        kids: Dict[int, List[Ev]] = {}
        for e in th:
            kids.setdefault(par[e.id], []).append(e)
        for k in kids.values():
            k.sort(key=lambda e: (e.ts, -e.dur, e.id))
        last_node: Optional[Node] = None
        last_top: Optional[Node] = None
        last_parent: Optional[int] = None
        depth = 0

        def visit(e: Ev) -> None:
            nonlocal last_node, last_top, last_parent, depth
            is_node = e.id in an_ids
            if is_node:
                s: Node = (e.id, True)
                if depth == 0 and last_top is not None:
                    deps.add((last_top, s))
                depth += 1
                if last_node is not None:
                    span_edges[(last_node, s)] = e.ts - nodes[last_node]
                    attr[(last_node, s)] = _attr(last_node, s, last_parent)
                last_node, last_parent = s, par[e.id]
            for c in kids.get(e.id, []):
                visit(c)
            if is_node:
                t: Node = (e.id, False)
                depth -= 1
                if last_node is not None:
                    span_edges[(last_node, t)] = 0 if e.name in BLOCKING else e.end - nodes[last_node]
                    attr[(last_node, t)] = _attr(last_node, t, last_parent)
                if depth == 0:
                    last_node, last_top = None, t
                else:
                    last_node, last_parent = t, par[e.id]
            elif last_node is not None and last_parent == e.id:
                last_parent = par[e.id]             # left an event without nodes: what follows belongs to its parent

        for root in kids.get(-1, []):
            visit(root)
    return Expect(host, dev, analysed, nodes, span_edges, deps, attr, parents_all)


def _attr(src: Node, dst: Node, src_parent: Optional[int]) -> int:
    if src[1]:
        return src[0]
    if not dst[1]:
        return dst[0]
    return src_parent if src_parent is not None else -1


def longest_path(n_nodes: int, edges: List[Tuple[int, int, float]]) -> Tuple[float, List[int]]:
    """Own DP over a topological order (Kahn).  Returns (max total weight, one optimal path).  Raises
    ValueError on a cycle."""
    adj: Dict[int, List[Tuple[int, float]]] = {i: [] for i in range(n_nodes)}
    indeg = {i: 0 for i in range(n_nodes)}
    for u, w_, wt in edges:
        adj[u].append((w_, wt))
        indeg[w_] += 1
    order = [i for i in range(n_nodes) if indeg[i] == 0]
    k = 0
    while k < len(order):
        u = order[k]
        k += 1
        for w_, _ in adj[u]:
            indeg[w_] -= 1
            if indeg[w_] == 0:
                order.append(w_)
    if len(order) != n_nodes:
        raise ValueError("cycle")
    best = {i: 0.0 for i in range(n_nodes)}
    prev: Dict[int, Optional[int]] = {i: None for i in range(n_nodes)}
    for u in order:
        for w_, wt in adj[u]:
            if best[u] + wt > best[w_]:
                best[w_] = best[u] + wt
                prev[w_] = u
    end = max(best, key=lambda i: best[i]) if best else None
    path = []
    while end is not None:
        path.append(end)
        end = prev[end]
    return (max(best.values()) if best else 0.0), path[::-1]
