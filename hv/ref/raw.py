"""Naive reference model of a trace file, computed from the raw JSON events only (lists, ints,
fractions; no pandas, nothing shared with hta).  Every oracle starts from here.

A *complete event* has a non-null `dur`, a non-null `cat` and `cat != "Trace"`; its id is its position in
`traceEvents`.  `Ev` carries the C01 image of the event: times after inward rounding when the file
has fractional timestamps, stream / correlation with their documented defaults.
"""
from __future__ import annotations

import math
from dataclasses import dataclass, field
from fractions import Fraction

from hv import core
from typing import Any, Dict, List, Optional, Tuple

SYNC_DEVICE_NAMES = ("Event Sync", "Context Sync")


@dataclass
class Ev:
    id: int
    name: str
    cat: str
    pid: Any
    tid: Any
    ts: int            # C01 image (after rounding), unshifted
    dur: int
    stream: int
    corr: int
    raw: Dict[str, Any] = field(repr=False, default_factory=dict)
    ts_alt: Optional[Tuple[int, int]] = None   # alternative (ts, dur) acceptable for the loader (float vs exact arithmetic)

    @property
    def end(self) -> int:
        return self.ts + self.dur

    @property
    def device_side(self) -> bool:
        """Documented side rule: stream >= 0 and correlation >= 0, or an Event/Context Sync."""
        return (self.stream >= 0 and self.corr >= 0) or self.name in SYNC_DEVICE_NAMES

    @property
    def args(self) -> Dict[str, Any]:
        a = self.raw.get("args")
        return a if isinstance(a, dict) else {}


def is_complete(e: Any) -> bool:
    if not isinstance(e, dict):
        return False
    d, c = e.get("dur"), e.get("cat")
    if d is None or c is None:
        return False
    if isinstance(d, float) and math.isnan(d):
        return False
    return c != "Trace"


def ts_column_is_float(events: List[Dict[str, Any]]) -> bool:
    """pandas builds a float64 `ts` column iff some entry has a float ts or lacks ts (NaN)."""
    for e in events:
        if "ts" not in e or e["ts"] is None or isinstance(e["ts"], float):
            return True
    return False


def _stream_of(args: Dict[str, Any]) -> int:
    s = args.get("stream", -1)
    try:
        return int(s)
    except (ValueError, TypeError):
        return -1


def model(events: List[Dict[str, Any]], rounding: bool = True) -> List[Ev]:
    """C01 image of every complete event of one file."""
    fl = ts_column_is_float(events) and rounding and not core.FLOAT_MODE
    out: List[Ev] = []
    for i, e in enumerate(events):
        if not is_complete(e):
            continue
        a = e.get("args") if isinstance(e.get("args"), dict) else {}
        ts, dur = e["ts"], e["dur"]
        alt = None
        if fl:
            # exact rationals of the doubles json.loads produced
            fts, fdur = Fraction(ts), Fraction(dur)
            rts = math.ceil(fts)
            rend = math.floor(fts + fdur)
            # IEEE: the loader adds two doubles before flooring; a 1-ulp difference is not a direction bug
            rend_f = math.floor(float(ts) + float(dur))
            ts_i, dur_i = rts, rend - rts
            if rend_f != rend:
                alt = (rts, rend_f - rts)
        else:
            ts_i, dur_i = ts, dur
        c = a.get("correlation", -1)
        out.append(Ev(i, e.get("name"), e.get("cat"), e.get("pid"), e.get("tid"), ts_i, dur_i, _stream_of(a),
                      c if isinstance(c, int) else -1, e, alt))
    return out


def link_oracle(evs: List[Ev]) -> Dict[int, int]:
    """C02 reference: id -> expected index_correlation."""
    by: Dict[Tuple[int, bool], List[int]] = {}
    for e in evs:
        if e.corr != -1:
            by.setdefault((e.corr, e.device_side), []).append(e.id)
    out = {}
    for e in evs:
        if e.corr == -1:
            out[e.id] = -1
            continue
        other = by.get((e.corr, not e.device_side), [])
        mine = by.get((e.corr, e.device_side), [])
        out[e.id] = other[0] if (len(other) == 1 and len(mine) == 1) else 0
    return out
