"""Reference model of a *loaded* trace set: iteration numbers (C12), trimming of the trailing profiler
step (C12) and the uniform shift (C01), computed from the raw-event model only."""
from __future__ import annotations

import re
from dataclasses import dataclass, field
from typing import Dict, List, Optional, Set

from hv.ref.raw import Ev, link_oracle

STEP_RE = re.compile(r"ProfilerStep\s*#\s*(\d+)")


def step_events(evs: List[Ev]) -> List[Ev]:
    return [e for e in evs if isinstance(e.name, str) and e.name.startswith("ProfilerStep") and STEP_RE.match(e.name)]


def iterations(evs: List[Ev]) -> Dict[int, int]:
    """id -> iteration.  Host event (stream < 0): the step whose half-open span contains its start, else
    -1.  Device activity (stream > 0): iteration of the linked host call, else -1."""
    steps = [(s.ts, s.ts + s.dur, int(STEP_RE.match(s.name).group(1))) for s in step_events(evs)]
    link = link_oracle(evs)
    it: Dict[int, int] = {}
    for e in evs:
        if e.stream < 0:
            v = -1
            for a, b, n in steps:
                if a <= e.ts < b:
                    v = n
            it[e.id] = v
    # several device activities may carry the id of ONE launch call (CUDA graph replay): each of them is launched by that call
    hosts_of: Dict[int, List[int]] = {}
    for e in evs:
        if e.corr != -1 and not e.device_side:
            hosts_of.setdefault(e.corr, []).append(e.id)
    for e in evs:
        if e.stream > 0:
            l = link[e.id]
            if l == 0 and e.corr != -1 and len(hosts_of.get(e.corr, [])) == 1:
                l = hosts_of[e.corr][0]
            it[e.id] = it.get(l, -1) if l > 0 else -1
    for e in evs:
        it.setdefault(e.id, -1)          # documented rule 3: anything else (e.g. stream 0) is -1
    return it


@dataclass
class Loaded:
    kept: Dict[int, List[Ev]] = field(default_factory=dict)        # rank -> kept events (unshifted times)
    min_ts: int = 0
    trimmed: bool = False
    iteration: Dict[int, Dict[int, int]] = field(default_factory=dict)
    last_step_start: Dict[int, Optional[int]] = field(default_factory=dict)
    last_step_end: Dict[int, Optional[int]] = field(default_factory=dict)


def n_step_names(models: Dict[int, List[Ev]]) -> int:
    names: Set[str] = set()
    for m in models.values():
        for e in m:
            for s in (e.name, e.cat):
                if isinstance(s, str) and "ProfilerStep" in s:
                    names.add(s)
    return len(names)


def loaded(models: Dict[int, List[Ev]], inc_last: bool = False) -> Loaded:
    """The trailing (usually incomplete) iteration is cut off per rank: a rank that recorded at least two profiler steps keeps the
    host events starting before its last step (or, on request, no later than that step's end) and the device activities they
    launched; a rank with fewer steps keeps everything."""
    out = Loaded()
    out.min_ts = min(e.ts for m in models.values() for e in m)
    out.trimmed = False
    for r, m in models.items():
        out.iteration[r] = iterations(m)
        host = [e for e in m if not e.device_side]
        dev = [e for e in m if e.device_side]
        steps = [e for e in host if isinstance(e.name, str) and "ProfilerStep" in e.name]
        if len({e.name for e in steps}) < 2:
            out.last_step_start[r] = out.last_step_end[r] = None
            out.kept[r] = list(m)
            continue
        out.trimmed = True
        ls = max(e.ts for e in steps)
        le = max(e.end for e in steps)
        out.last_step_start[r], out.last_step_end[r] = ls, le
        kh = [e for e in host if (e.ts <= le if inc_last else e.ts < ls)]
        corr = {e.corr for e in kh}
        kd = [e for e in dev if e.corr in corr]
        out.kept[r] = kh + kd
    return out
