"""Reference interval arithmetic for C04 / C05 / C07: integer sweeps over distinct endpoints.
Kernel-type rules are the documented name rules (copied verbatim from the library's docstrings/regexes:
the properties are about the time accounting, not about the classification)."""
from __future__ import annotations

import re
from typing import Dict, FrozenSet, Iterable, List, Tuple

Iv = Tuple[int, int]

_COMM = re.compile(r"^nccl.*Kernel")
_MEM = re.compile(r"(^Memcpy)|(^Memset)|(^dma)")
_NOT_COMPUTE = re.compile(r"(^nccl.*Kernel)|(.*(Memcpy)|(Memset))|(.*Sync)")


def kernel_type(name: str) -> str:
    if _COMM.match(name):
        return "COMMUNICATION"
    if _MEM.match(name):
        return "MEMORY"
    if not _NOT_COMPUTE.match(name):
        return "COMPUTATION"
    return "OTHER"


def measure(ivs: Iterable[Iv]) -> int:
    """Lebesgue measure of the union of closed integer intervals."""
    tot, cur_a, cur_b = 0, None, None
    for a, b in sorted(ivs):
        if cur_a is None:
            cur_a, cur_b = a, b
        elif a <= cur_b:
            cur_b = max(cur_b, b)
        else:
            tot += cur_b - cur_a
            cur_a, cur_b = a, b
    if cur_a is not None:
        tot += cur_b - cur_a
    return tot


def segments(typed: List[Tuple[int, int, str]], types: List[str]) -> Dict[FrozenSet[str], int]:
    """time per exact set of running types (only `types` considered)."""
    pts = sorted({x for a, b, _ in typed for x in (a, b)})
    out: Dict[FrozenSet[str], int] = {}
    for a, b in zip(pts, pts[1:]):
        act = frozenset(t for s, e, t in typed if t in types and s <= a and b <= e)
        if act:
            out[act] = out.get(act, 0) + (b - a)
    return out
