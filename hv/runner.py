"""Parent process of a check: shards the workload over subprocesses (one fresh interpreter each, so
the repository's current working tree is imported afresh), merges what the monitors observed,
decides the three-valued verdict and writes /verif/evidence/<ID>.json.

exit 0  held on everything observed (KNOWN-FINDING lines may be printed)
exit 1  violation: line  VIOLATION property=<id> replay=<path>
exit 2  inconclusive:    INCONCLUSIVE property=<id> reason=...
"""
from __future__ import annotations

import argparse
import collections
import concurrent.futures as cf
import importlib
import json
import os
import subprocess
import sys
import tempfile
import time

from hv import core, kf


def _run_shard(prop, tier, seed, shard, nshards, cases, timeout, hashseed, replay=None):
    fd, out = tempfile.mkstemp(prefix=f"hv_{prop}_{shard}_", suffix=".json")
    os.close(fd)
    cmd = [sys.executable, "-m", "hv.shard", prop, "--tier", tier, "--seed", str(seed), "--shard", str(shard),
           "--nshards", str(nshards), "--cases", str(cases), "--out", out]
    if replay:
        cmd += ["--replay", replay]
    env = dict(os.environ)
    covdir = env.get("VERIF_COV")
    if covdir:                                  # reach report (tools/reach.py): which repository lines the workload drives
        os.makedirs(covdir, exist_ok=True)
        cmd = [sys.executable, "-m", "coverage", "run", "--branch", f"--data-file={covdir}/.coverage.{prop}.{shard}",
               f"--include={core.REPO}/hta/*"] + cmd[1:]
        timeout = timeout * 4
    env["PYTHONHASHSEED"] = str(hashseed)
    env.setdefault("OMP_NUM_THREADS", "1")
    env.setdefault("OPENBLAS_NUM_THREADS", "1")
    t0 = time.time()
    try:
        p = subprocess.run(cmd, env=env, stdout=subprocess.PIPE, stderr=subprocess.PIPE, timeout=timeout, text=True)
        rc, err = p.returncode, p.stderr[-3000:]
    except subprocess.TimeoutExpired as e:
        rc, err = -9, f"watchdog: shard exceeded {timeout}s" + ((e.stderr or b"")[-1500:].decode("utf8", "replace") if isinstance(e.stderr, bytes) else "")
    res = None
    try:
        with open(out) as fh:
            txt = fh.read()
        if txt.strip():
            res = json.loads(txt)
    except Exception as e:  # noqa: BLE001
        err += f"\n[result unreadable: {e}]"
    finally:
        try:
            os.remove(out)
        except OSError:
            pass
    return shard, rc, res, err, time.time() - t0


def main(argv=None) -> int:
    ap = argparse.ArgumentParser(prog="check")
    ap.add_argument("prop")
    ap.add_argument("--tier", default=os.environ.get("VERIF_TIER", "quick"), choices=["quick", "thorough"])
    ap.add_argument("--seed", type=int, default=int(os.environ.get("VERIF_SEED", "0")))
    ap.add_argument("--replay", default=None)
    ap.add_argument("--shards", type=int, default=None)
    ap.add_argument("--cases", type=int, default=None)
    ap.add_argument("--no-evidence", action="store_true")
    a = ap.parse_args(argv)
    prop = a.prop.upper()
    t0 = time.time()
    core.ensure_deps()
    mod = importlib.import_module(f"hv.props.{prop.lower()}")
    plan = dict(mod.PLAN[a.tier])
    if a.shards:
        plan["shards"] = a.shards
    if a.cases is not None:
        plan["cases"] = a.cases
    nshards, cases, timeout = plan["shards"], plan["cases"], plan.get("timeout", 900)
    hashseeds = plan.get("hashseeds") or [0]

    if a.replay:
        _, rc, res, err, _ = _run_shard(prop, a.tier, a.seed, 0, 1, 0, timeout, 0, replay=a.replay)
        if res is None or res.get("harness_errors"):
            print(f"INCONCLUSIVE property={prop} reason=replay failed: {(res or {}).get('harness_errors') or err}")
            return 2
        if res["violations"]:
            for v in res["violations"]:
                print(f"  [{v['clause']}] {core.short(v['detail'], 600)}")
            print(f"VIOLATION property={prop} replay={a.replay}")
            return 1
        for k, n in res.get("known", {}).items():
            print(f"KNOWN-FINDING: property={prop} {kf.what(prop, k)}")
        print(f"replay: property {prop} held on {a.replay}")
        return 0

    rdir = os.path.join(core.VERIF_HOME, "replays", prop)
    if os.path.isdir(rdir):                      # replay files of earlier runs are stale
        for f in os.listdir(rdir):
            try:
                os.remove(os.path.join(rdir, f))
            except OSError:
                pass
    results, failures = [], []
    with cf.ThreadPoolExecutor(max_workers=min(16, nshards)) as ex:
        futs = [ex.submit(_run_shard, prop, a.tier, a.seed, s, nshards, cases, timeout, hashseeds[s % len(hashseeds)])
                for s in range(nshards)]
        for f in futs:
            shard, rc, res, err, wall = f.result()
            if res is None or rc != 0:
                failures.append(f"shard {shard}: rc={rc} {err[-800:]}")
            if res is not None:
                results.append(res)

    # ---------------------------------------------------------------- merge
    evaluations = sum(r["evaluations"] for r in results)
    keys = set()
    counters, monitor, discards, trivial, known, tapc = (collections.Counter() for _ in range(6))
    samples, violations, herr, notes = [], [], [], {}
    for r in results:
        keys.update(r["nontrivial_keys"])
        counters.update(r["counters"]); monitor.update(r["monitor"]); discards.update(r["discard_reasons"])
        trivial.update(r["trivial_reasons"]); known.update(r["known"]); tapc.update(r.get("taps", {}))
        samples.extend(r["samples"]); violations.extend(r["violations"]); herr.extend(r["harness_errors"])
        for k, v in r.get("notes", {}).items():
            if isinstance(v, list):
                notes.setdefault(k, [])
                for x in v:
                    if x not in notes[k] and len(notes[k]) < 40:
                        notes[k].append(x)
            elif isinstance(v, (int, float)):
                notes[k] = notes.get(k, 0) + v
            else:
                notes.setdefault(k, v)
    discarded = sum(r["discarded"] for r in results)

    # ---------------------------------------------------------------- verdict
    reasons = []
    if failures:
        reasons.append("shard failure: " + " | ".join(failures)[:1500])
    if herr:
        reasons.append(f"{len(herr)} harness/oracle exception(s), first: {herr[0]['error']} @ case {herr[0]['case']}\n{herr[0].get('tb', '')}")
    floors = getattr(mod, "FLOORS", {}).get(a.tier, {})
    scale = (cases / mod.PLAN[a.tier]["cases"]) if mod.PLAN[a.tier]["cases"] else 1.0
    for name, need in floors.items():
        need = max(1, int(need * min(1.0, scale)))
        have = len(keys) if name == "distinct_nontrivial" else (monitor.get(name, 0) + counters.get(name, 0))
        if have < need:
            reasons.append(f"floor not met: {name}={have} < {need}")
    if len(keys) < 2 and not any("distinct_nontrivial" in r for r in reasons):
        reasons.append(f"only {len(keys)} distinct non-trivial case(s)")

    wall = time.time() - t0
    cov = {
        "evaluations": evaluations,
        "distinct_nontrivial": len(keys),
        "rule": mod.RULE,
        "samples": samples[:4] or ["(no non-trivial sample recorded)"],
        "discarded_out_of_regime": discarded,
        "discard_reasons": dict(discards.most_common(12)),
        "trivial_reasons": dict(trivial.most_common(12)),
        "observed": dict(sorted(counters.items())),
        "monitor_evaluations": dict(sorted(monitor.items())),
        "warnings_tapped_in_hta": dict(tapc.most_common(25)),
        "known_findings_hit": dict(known),
        "shards": nshards,
        "notes": notes,
        "inconclusive_reasons": reasons,
        "exhaustive": False,
    }
    ev = {
        "property_id": prop, "tier": a.tier, "seed": a.seed, "level": "exploration", "coverage": cov,
        "assumptions": list(getattr(mod, "ASSUMPTIONS", [])), "wall_s": round(wall, 2), "violations": len(violations),
    }
    if not a.no_evidence:
        os.makedirs(os.path.join(core.VERIF_HOME, "evidence"), exist_ok=True)
        with open(os.path.join(core.VERIF_HOME, "evidence", f"{prop}.json"), "w") as fh:
            json.dump(ev, fh, indent=1, default=str)

    print(f"[{prop}] tier={a.tier} seed={a.seed} evaluations={evaluations} distinct_nontrivial={len(keys)} "
          f"discarded={discarded} violations={len(violations)} known={sum(known.values())} wall={wall:.1f}s")
    show = [f"{k}={v}" for k, v in sorted(monitor.items())][:14]
    if show:
        print(f"[{prop}] monitors: " + " ".join(show))
    show = [f"{k}={v}" for k, v in sorted(counters.items())][:40]
    if show:
        print(f"[{prop}] observed: " + " ".join(show))
    for k, n in known.items():
        print(f"KNOWN-FINDING: property={prop} {kf.what(prop, k)} (seen {n}x in this run)")
    if violations:
        hist = collections.Counter((v["clause"], (v.get("witness") or {}).get("where", "")) for v in violations)
        for (cl, wh), n in hist.most_common(12):
            print(f"[{prop}] violation kind: {n}x {cl} {wh}")
        seen = set()
        for v in violations:
            sig = (v["clause"], v.get("mechanism"))
            if sig in seen and len(seen) > 0 and not v.get("replay"):
                continue
            if len(seen) >= 8:
                break
            if sig in seen:
                continue
            seen.add(sig)
            print(f"  [{v['clause']}] case={v['case_id']} {core.short(v['detail'], 700)}")
            print(f"VIOLATION property={prop} replay={v.get('replay', '(not written: cap reached)')}")
        return 1
    if reasons:
        for r in reasons:
            print(f"INCONCLUSIVE property={prop} reason={r}")
        return 2
    return 0


if __name__ == "__main__":
    sys.exit(main())
