"""G-struct: arbitrary Chrome-trace event mixes for the parse-level properties (C01, C11, C20).

Produces raw trace dictionaries as Kineto would write them, but with every structural variation a
loader can meet: metadata / flow / instant / counter entries interleaved, events without `cat` or
`dur`, `dur: null`, the profiler's own `Trace` span with string pid/tid, args missing / None / not a
dict, stream as int / numeric string / garbage, zero durations, shuffled order, epoch offsets,
integer / dyadic / decimal fractional timestamps, small and huge correlation ids, many events
(dtype boundaries 127 / 32767), per-rank vocabularies.
"""
from __future__ import annotations

import random
from typing import Any, Dict, List

CATS = ["cpu_op", "user_annotation", "cuda_runtime", "cuda_driver", "kernel", "gpu_memcpy", "gpu_memset",
        "cuda_sync", "gpu_user_annotation", "python_function", "ac2g", "fwdbwd", "overhead", "cpu_instant_event"]
SHARED = ["aten::mm", "aten::add", "cudaLaunchKernel", "Memcpy HtoD (Pageable -> Device)", "ncclKernel_AllReduce_RING_LL_Sum_float",
          "void at::native::vectorized_elementwise_kernel<4, at::native::FillFunctor<float>>(int)", "Context Sync", "Event Sync",
          "élève::中文", "", " leading space", "Trace",
          # names that are also category strings of the file (record_function("kernel"), an annotation called cpu_op)
          "kernel", "cpu_op", "user_annotation"]

FIELD_LIKE_KEYS = ["name", "Name", "NAME.", "name (x)", "Ts", "ts", "Dur", "dur (us)", "Cat", "cat", "Pid", "pid", "Tid", "tid",
                   "Trace name", "Python id", "Ev Idx", "grid", "est. achieved occupancy %",
                   # ... and to columns the parser / loader adds to every row
                   "index", "Index", "end", "End", "iteration", "index_correlation"]

TS_MODES = ["int", "int", "dyadic", "decimal", "intts_fracdur", "int_as_float", "fracts_intdur"]


def gen_rank(rnd: random.Random, rank: int, p: Dict[str, Any]) -> Dict[str, Any]:
    base = p["base"]
    mode = p["ts_mode"]
    n = p["n_events"]
    trange = p["trange"]

    def T(x: int):
        if mode in ("int", "intts_fracdur"):
            return x
        if mode == "int_as_float":
            return float(x)
        if mode in ("dyadic", "fracts_intdur"):
            return x + rnd.choice([0.0, 0.25, 0.5, 0.75])
        return x + rnd.choice([0.0, 0.123, 0.5, 0.999, 0.001])

    def D(x: int):
        if mode in ("int", "fracts_intdur"):
            return x
        if mode == "int_as_float":
            return float(x)
        if mode in ("dyadic", "intts_fracdur"):
            return x + rnd.choice([0.0, 0.25, 0.5])
        return x + rnd.choice([0.0, 0.301, 0.7, 0.999])

    host_pid = 4000 + rank
    vocab = [f"op_r{rank}_{i}" for i in range(rnd.randint(1, 1 + p["vocab"]))] + rnd.sample(SHARED, rnd.randint(0, 5))
    if p["steps"]:
        vocab += [f"ProfilerStep#{k}" for k in rnd.sample(range(1, 40), p["steps"])]
    if n > 2000:
        # sync-named events without correlation id used to be joined with every id-less host event when trimming (finding K2,
        # fixed since): quadratic, tens of GB for 33000 events, if that ever returns.  The small cases exercise the mechanism.
        vocab = [v for v in vocab if v not in ("Event Sync", "Context Sync")]
    corr_small = rnd.random() < 0.6
    # event 0 is a host operator, as Kineto writes it (needed by the correlation transform's sentinel)
    ev: List[Dict[str, Any]] = [{"ph": "X", "cat": "cpu_op", "name": "aten::first", "pid": host_pid, "tid": host_pid,
                                 "ts": T(base + rnd.randint(0, 5)), "dur": D(rnd.randint(1, 50)), "args": {"External id": 1}}]
    used_corr_host, used_corr_dev = set(), set()
    for i in range(n):
        k = rnd.random()
        ts = base + rnd.randint(0, trange)
        if k < p["p_complete"]:
            cat = rnd.choice(CATS + (["Trace"] if rnd.random() < 0.15 else []))
            if cat == "Trace":
                e = {"ph": "X", "cat": "Trace", "name": f"PyTorch Profiler ({rank})", "pid": rnd.choice(["Spans", host_pid]),
                     "tid": rnd.choice(["PyTorch Profiler", 7]), "ts": T(ts), "dur": D(rnd.choice([10, 1000]))}
                if rnd.random() < 0.5:
                    e["args"] = {"Op count": 0}
                ev.append(e)
                continue
            device = cat in ("kernel", "gpu_memcpy", "gpu_memset", "gpu_user_annotation") or (cat == "cuda_sync" and rnd.random() < 0.7)
            e = {"ph": "X", "cat": cat, "name": rnd.choice(vocab),
                 "pid": rnd.choice([0, 1]) if device else host_pid,
                 "tid": rnd.choice([7, 20, 24]) if device else rnd.choice([host_pid, host_pid + 1]),
                 "ts": T(ts), "dur": D(rnd.choice([0, 0, 1, 2, 10, 100]))}
            tid_num, pid_num = e["tid"], e["pid"]
            if p.get("odd_labels"):
                x = rnd.random()
                if x < 0.12:
                    e["tid"] = f"stream {e['tid']}" if device else "python main"       # older Kineto layout: textual thread labels
                elif x < 0.18:
                    e["pid"] = "GPU 0" if device else "python"
                elif x < 0.26:
                    del e["tid"]                                                      # pid / tid are optional in the trace format
                elif x < 0.30:
                    del e["pid"]
                elif x < 0.33:
                    e["tid"] = None
                elif x < 0.38 and p.get("nameless"):
                    del e["name"]                                                     # a complete event without a name
            a = rnd.random()
            if a < 0.7:
                args: Dict[str, Any] = {}
                if device:
                    args["stream"] = tid_num if rnd.random() < 0.8 else rnd.choice(["7", "abc", -1, 0])
                    args["device"] = pid_num
                elif rnd.random() < 0.08:
                    args["stream"] = rnd.choice(["7", "x", -1, "0x0", "0x55d0c8a0", " 7 "])     # ROCm host calls carry a hex handle
                if rnd.random() < 0.7:
                    c = rnd.randint(0, 120) if corr_small else rnd.choice([rnd.randint(0, 120), rnd.randint(2 ** 20, 2 ** 31 - 1), rnd.randint(2 ** 31, 2 ** 32 - 1)])
                    # side by the documented rule (after stream normalisation): an id occurs at most once per side
                    try:
                        st_i = int(args.get("stream", -1))
                    except ValueError:
                        st_i = -1
                    dev_rule = st_i >= 0 or e["name"] in ("Event Sync", "Context Sync")
                    side = used_corr_dev if dev_rule else used_corr_host
                    if c not in side:
                        side.add(c)
                        args["correlation"] = c
                    elif p.get("shared_host_ids") and not dev_rule and rnd.random() < 0.6:
                        # a runtime call and the driver call nested in it carry the same id (CUPTI numbers the API call, not the record)
                        args["correlation"] = c
                if rnd.random() < 0.3:
                    args["bytes"] = rnd.choice([12, 4096])
                if rnd.random() < 0.2:
                    args["External id"] = rnd.randint(1, 1000)
                if rnd.random() < 0.1:
                    args["Input Dims"] = [[2, 3], []]
                if p.get("field_like_args") and rnd.random() < 0.3:
                    # arg keys that normalise to one of the event's own fields (matter under parse_all_args)
                    args[rnd.choice(FIELD_LIKE_KEYS)] = rnd.choice([7, "x", 2.5, 0])
                e["args"] = args
            elif a < 0.8:
                e["args"] = None
            elif a < 0.85:
                e["args"] = "not-a-dict"
            ev.append(e)
        elif k < p["p_complete"] + 0.08:
            ev.append({"ph": "M", "name": rnd.choice(["process_name", "thread_name", "process_labels"]), "pid": host_pid,
                       "tid": 0, "ts": T(ts), "args": {"name": "python"}} if rnd.random() < 0.7 else
                      {"ph": "M", "name": "process_sort_index", "pid": host_pid, "tid": 0, "args": {"sort_index": 5}})
        elif k < p["p_complete"] + 0.16:
            ev.append({"ph": rnd.choice(["s", "f"]), "id": i, "cat": rnd.choice(["ac2g", "fwdbwd"]), "name": "ac2g", "pid": 0, "tid": 7,
                       "ts": T(ts), "bp": "e"})
        elif k < p["p_complete"] + 0.20:
            ev.append({"ph": "i", "name": "Record Window End", "pid": "", "tid": "", "ts": T(ts), "s": "g"})
        elif k < p["p_complete"] + 0.24:
            ev.append({"ph": "X", "name": "no-cat", "pid": 0, "tid": 7, "ts": T(ts), "dur": D(3)})
        elif k < p["p_complete"] + 0.28:
            ev.append({"ph": "X", "cat": "cpu_op", "name": "null-dur", "pid": host_pid, "tid": host_pid, "ts": T(ts), "dur": None, "args": {}})
        elif k < p["p_complete"] + 0.31:
            ev.append({"ph": "X", "cat": None, "name": "null-cat", "pid": host_pid, "tid": host_pid, "ts": T(ts), "dur": D(2)})
        else:
            ev.append({"ph": "C", "name": "cnt", "pid": 0, "tid": 7, "ts": T(ts), "args": {"v": 1}})
    if p["shuffle"]:
        head, rest = ev[:1], ev[1:]
        rnd.shuffle(rest)
        ev = head + rest
    tr = {"schemaVersion": 1, "distributedInfo": {"backend": "nccl", "rank": rank, "world_size": p["n_ranks"]},
          "traceEvents": ev, "traceName": f"r{rank}.json"}
    mode = p.get("base_ns", "some")
    if mode == "some":
        if rnd.random() < 0.3:
            tr["baseTimeNanoseconds"] = 1_700_000_000_000_000_000
    elif mode == "same":
        tr["baseTimeNanoseconds"] = 1_700_000_000_000_000_000
    elif mode == "differ":
        # every rank's profiler recorded its own base time; `ts` values are what they are (one shared shift after loading)
        tr["baseTimeNanoseconds"] = 1_700_000_000_000_000_000 + rank * rnd.choice([1000, 2_500_000, 4_000_000_017]) + rnd.choice([0, 999])
    if rnd.random() < 0.3:
        tr["deviceProperties"] = [{"id": 0, "name": "GPU", "totalGlobalMem": 1}]
    if rnd.random() < 0.3:
        # a hint for the viewer only: the unit in which it DISPLAYS times (ts / dur stay microseconds)
        tr["displayTimeUnit"] = rnd.choice(["ms", "ns", "ns"])
    return tr


def gen_fileset(rnd: random.Random, tier: str, big: bool = False) -> Dict[str, Any]:
    """Returns {'params': {...}, 'files': {filename: trace}}"""
    n_ranks = rnd.choice([1, 1, 2, 2, 3, 4] + ([9, 10] if tier == "thorough" and rnd.random() < 0.1 else []))
    if tier != "thorough" and rnd.random() < 0.05:
        n_ranks = rnd.choice([9, 10, 11])        # more than 8 ranks: the pool is sized from a sample parse
    ts_mode = rnd.choice(TS_MODES)
    base = rnd.choice([0, 0, 3, 100, 10 ** 6, 2 ** 31 - 50, 1_700_000_000_000_000])
    if ts_mode in ("dyadic", "decimal", "fracts_intdur") and base > 2 ** 40:
        base = rnd.choice([0, 10 ** 6, 2 ** 33])       # keep fractions representable in a double
    n_events = rnd.randint(1, 60)
    if big:
        n_events = rnd.choice([130, 140, 300, 33000] if tier == "thorough" else [130, 140, 300])
    p = {"n_ranks": n_ranks, "ts_mode": ts_mode, "base": base, "n_events": n_events,
         "trange": rnd.choice([3, 20, 300, 5000]), "vocab": rnd.choice([1, 4, 12]),
         "steps": rnd.choice([0, 0, 0, 1]), "p_complete": rnd.choice([0.55, 0.7, 0.9, 1.0]),
         "shuffle": rnd.random() < 0.4, "per_rank_offset": rnd.choice([0, 0, 1000, -7]),
         "field_like_args": rnd.random() < 0.3, "odd_labels": rnd.random() < 0.25, "nameless": False,
         "base_ns": rnd.choice(["some", "some", "same", "differ"]), "shared_host_ids": rnd.random() < 0.3}
    files = {}
    for r in range(n_ranks):
        q = dict(p)
        q["base"] = max(0, base + r * p["per_rank_offset"])
        if rnd.random() < 0.3:
            q["n_events"] = rnd.randint(1, 20)           # ranks of different sizes
        tr = gen_rank(rnd, r, q)
        fname = f"rank{r}.json" + (".gz" if rnd.random() < 0.4 else "")
        files[fname] = tr
    return {"params": p, "files": files}
