"""Known findings: mechanism classifiers.

/verif/known_findings.json (committed, never written at run time) lists
    {"property": "C03", "status": "known"|"fixed", "key": "<classifier name>", "what": "...", "commit": "..."}
A violation is suppressed (reported as KNOWN-FINDING) only if a classifier below recognises the
*mechanism* in its witness and an entry with status "known" names that classifier for that property.
"fixed" entries suppress nothing.  Classifiers are deterministic predicates over the witness / the
raw case; they never look at case hashes, seeds or random values.
"""
from __future__ import annotations

import json
import os
from typing import Any, Callable, Dict, List, Optional

from hv import core

_FILE = os.path.join(core.VERIF_HOME, "known_findings.json")
_entries: Optional[List[Dict[str, Any]]] = None


def entries() -> List[Dict[str, Any]]:
    global _entries
    if _entries is None:
        try:
            with open(_FILE) as fh:
                _entries = json.load(fh)["findings"]
        except FileNotFoundError:
            _entries = []
    return _entries


def is_known(prop: str, key: str) -> bool:
    return any(e["property"] == prop and e["key"] == key and e["status"] == "known" for e in entries())


def what(prop: str, key: str) -> str:
    for e in entries():
        if e["property"] == prop and e["key"] == key:
            return e["what"]
    return key


# ---------------------------------------------------------------- classifiers
# Each classifier: (violation, case) -> bool.  Registered per property.
_CLASSIFIERS: Dict[str, List[tuple]] = {}


def classifier(prop: str, key: str) -> Callable:
    def deco(fn: Callable) -> Callable:
        _CLASSIFIERS.setdefault(prop, []).append((key, fn))
        return fn
    return deco


def classify(prop: str, violation: Any, case: Any) -> Optional[str]:
    for key, fn in _CLASSIFIERS.get(prop, []):
        try:
            if fn(violation, case):
                return key
        except Exception:
            continue
    return None


# K1 -------------------------------------------------------------------------------------------
def k1_instants(spans: List[List[int]]) -> set:
    """Instants t (on one thread) that carry a zero-duration event, the end of a positive-duration
    event and the start of another positive-duration event.  spans: [id, ts, end]."""
    zero = {a for _, a, b in spans if a == b}
    closes = {b for _, a, b in spans if b > a}
    opens = {a for _, a, b in spans if b > a}
    return zero & closes & opens


@classifier("C03", "k1_zero_at_touching_instant")
def _k1(v: Any, case: Any) -> bool:
    """The witness thread has a K1 instant (zero-duration event where one positive span ends and another
    begins) AND the driver's attribution test passed: with only the zero-duration events on K1 instants
    removed, the real builder's result satisfies every clause (so nothing but K1 is wrong)."""
    w = v.witness
    spans = w.get("spans")
    if not spans or not w.get("k1_repair_clean"):
        return False
    return bool(k1_instants(spans))


# K4 -------------------------------------------------------------------------------------------
@classifier("C03", "k4_old_builder_drops_host_thread_sharing_pid_tid_with_device_stream")
def _k4(v: Any, case: Any) -> bool:
    """The builder behind critical-path analysis (hta/common/call_stack.py) keeps only the device rows of a (pid, tid) group that
    has any: a host thread whose (pid, tid) pair is also the (device ordinal, stream id) of device records loses ALL its events."""
    w = v.witness
    if v.clause != "every-event-once" or not (w.get("old_builder") and w.get("shares_pid_tid_with_device_stream")):
        return False
    spans = w.get("spans") or []
    return bool(spans) and set(w.get("wrong_ids") or []) == {r[0] for r in spans}


# K5 -------------------------------------------------------------------------------------------
@classifier("C20", "k5_rank_discovery_reads_an_event_argument_named_rank")
def _k5(v: Any, case: Any) -> bool:
    """create_rank_to_trace_dict takes the first "rank": N text of a file: in every wrongly mapped file that text is an event
    argument lying ahead of (or instead of) the distributedInfo block."""
    return v.clause == "rank-discovery" and v.witness.get("wrong_files_have_a_rank_argument_ahead_of_the_metadata") is True


# K2 -------------------------------------------------------------------------------------------
@classifier("C01", "k2_sync_named_event_without_correlation_duplicated_by_trimming")
def _k2(v: Any, case: Any) -> bool:
    """Duplicate rows, all of them for events *named* 'Event Sync' / 'Context Sync' that carry no
    correlation id, in a load that trims (>= 2 profiler-step names)."""
    w = v.witness
    if v.clause != "one-row-per-event" or not w.get("trimming"):
        return False
    evs = w.get("dup_events") or []
    ids = w.get("dup_ids") or []
    return bool(evs) and len(evs) == len(ids) and all(e["name"] in ("Event Sync", "Context Sync") and e["corr"] == -1 for e in evs)


# K3 -------------------------------------------------------------------------------------------
def _k3(v: Any, case: Any) -> bool:
    """critical_path() trips its own `assert len(critical_path_nodes) >= 2` on a graph all of whose edge
    weights are zero (e.g. a window that holds nothing but a blocking synchronisation call): the
    longest-path routine then returns a single node."""
    w = v.witness
    return (v.clause.startswith("no-exception:") and w.get("exc_type") == "AssertionError" and str(w.get("where", "")).endswith(":critical_path")
            and w.get("all_logged_weights_zero") is True and w.get("n_logged_edges", 0) > 0)


for _p in ("C08", "C09", "C10", "C19", "C20"):
    classifier(_p, "k3_all_zero_weight_graph_trips_path_assert")(_k3)
