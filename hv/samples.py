"""Real sample traces shipped in <repo>/tests/data that are non-empty in this sandbox.  The oracles work
from raw events, so they apply to these files unchanged (regime predicates decide per property)."""
from __future__ import annotations

import gzip
import json
import os
from typing import Any, Dict, List, Tuple

from hv import core

SMALL = ["critical_path/simple_add", "critical_path/alexnet", "critical_path/cuda_event_sync",
         "critical_path/cuda_event_sync_multi_stream", "cpu_only", "triton_example", "amd_trace", "trace_file_list"]
MEDIUM = ["trace_filter", "rank_non_gpu"]
LARGE = ["ns_resolution_trace", "trace_diff/control", "trace_diff/test", "negative_queue_length_values_check"]


def data_root() -> str:
    return os.path.join(core.REPO, "tests", "data")


def dirs(tier: str, large: bool = False) -> List[str]:
    out = list(SMALL)
    if tier == "thorough":
        out += MEDIUM
        if large:
            out += LARGE
    return [d for d in out if os.path.isdir(os.path.join(data_root(), d)) and _nonempty(os.path.join(data_root(), d))]


def _files(d: str) -> List[str]:
    return sorted(f for f in os.listdir(d) if f.endswith(".json") or f.endswith(".gz"))


def _nonempty(d: str) -> bool:
    fs = _files(d)
    return bool(fs) and all(os.path.getsize(os.path.join(d, f)) > 200 for f in fs)


def read(path: str) -> Dict[str, Any]:
    if path.endswith(".gz"):
        with gzip.open(path, "rb") as fh:
            return json.loads(fh.read())
    with open(path) as fh:
        return json.load(fh)


def load_raw(rel: str) -> Tuple[Dict[int, Dict[str, Any]], Dict[int, str], str]:
    """-> ({rank: raw trace}, {rank: path}, dir).  Rank from distributedInfo.rank, default 0."""
    d = os.path.join(data_root(), rel)
    raws, paths = {}, {}
    for f in _files(d):
        p = os.path.join(d, f)
        tr = read(p)
        r = int(tr.get("distributedInfo", {}).get("rank", 0)) if isinstance(tr.get("distributedInfo"), dict) else 0
        raws[r] = tr
        paths[r] = p
    return raws, paths, d
