"""Real sample traces shipped in <repo>/tests/data that are non-empty in this sandbox.  The oracles work
from raw events, so they apply to these files unchanged (regime predicates decide per property)."""
from __future__ import annotations

import gzip
import json
import os
from typing import Any, Dict, List, Tuple

from hv import core

SMALL = ["critical_path/simple_add", "critical_path/alexnet", "critical_path/cuda_event_sync",
         "critical_path/cuda_event_sync_multi_stream", "cpu_only", "triton_example", "amd_trace", "trace_file_list"]
MEDIUM = ["trace_filter", "rank_non_gpu"]
LARGE = ["ns_resolution_trace", "trace_diff/control", "trace_diff/test", "negative_queue_length_values_check"]


def data_root() -> str:
    return os.path.join(core.REPO, "tests", "data")


def dirs(tier: str, large: bool = False) -> List[str]:
    out = list(SMALL)
    if tier == "thorough":
        out += MEDIUM
        if large:
            out += LARGE
    return [d for d in out if os.path.isdir(os.path.join(data_root(), d)) and _nonempty(os.path.join(data_root(), d))]


def _files(d: str) -> List[str]:
    return sorted(f for f in os.listdir(d) if f.endswith(".json") or f.endswith(".gz"))


def _nonempty(d: str) -> bool:
    fs = _files(d)
    return bool(fs) and all(os.path.getsize(os.path.join(d, f)) > 200 for f in fs)


def read(path: str) -> Dict[str, Any]:
    if path.endswith(".gz"):
        with gzip.open(path, "rb") as fh:
            return json.loads(fh.read())
    with open(path) as fh:
        return json.load(fh)


def load_raw(rel: str) -> Tuple[Dict[int, Dict[str, Any]], Dict[int, str], str]:
    """-> ({rank: raw trace}, {rank: path}, dir).  Rank from distributedInfo.rank, default 0."""
    d = os.path.join(data_root(), rel)
    raws, paths = {}, {}
    for f in _files(d):
        p = os.path.join(d, f)
        tr = read(p)
        r = int(tr.get("distributedInfo", {}).get("rank", 0)) if isinstance(tr.get("distributedInfo"), dict) else 0
        raws[r] = tr
        paths[r] = p
    return raws, paths, d


def case_files(rel: str) -> Dict[str, Any]:
    """{file name: raw trace} of a sample directory (for drivers that write their own copies)."""
    d = os.path.join(data_root(), rel)
    return {f: read(os.path.join(d, f)) for f in _files(d)}


def sample_cases(tier: str, max_events: int = 20000) -> List[Dict[str, Any]]:
    out = []
    for rel in dirs(tier):
        try:
            files = case_files(rel)
        except Exception:  # noqa: BLE001
            continue
        if any(not isinstance(t, dict) or "traceEvents" not in t or len(t["traceEvents"]) > max_events for t in files.values()):
            continue
        # every file needs a distinct rank for directory loading
        ranks = [t.get("distributedInfo", {}).get("rank", 0) if isinstance(t.get("distributedInfo"), dict) else 0 for t in files.values()]
        if len(set(ranks)) != len(ranks):
            continue
        for t in files.values():
            t.setdefault("distributedInfo", {"rank": 0})
            t["distributedInfo"].setdefault("rank", 0)
        out.append({"sample": rel, "files": files})
    return out
