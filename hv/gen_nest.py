"""G-nest: laminar span families on one thread with every tie pattern (shared starts, shared ends,
identical spans, back-to-back siblings, zero-duration events at start / end / inside / alone /
stacked), random id assignment; plus exhaustive enumeration of small families."""
from __future__ import annotations

import itertools
import random
from typing import Dict, Iterator, List, Tuple

Span = Tuple[int, int]


def gen_family(rnd: random.Random, n_max: int, tmax: int, zero_p: float, max_depth: int = 8) -> List[Span]:
    spans: List[Span] = []

    def rec(lo: int, hi: int, depth: int) -> None:
        if len(spans) >= n_max or depth > max_depth:
            return
        k = rnd.randint(0, 4)
        pts = sorted(rnd.randint(lo, hi) for _ in range(2 * k))
        for i in range(k):
            a, b = pts[2 * i], pts[2 * i + 1]
            r = rnd.random()
            if r < zero_p:
                b = a
            elif r < zero_p + 0.1:
                a, b = lo, hi                      # identical to the parent span
            elif r < zero_p + 0.2:
                a = lo                             # shares the parent's start
            elif r < zero_p + 0.3:
                b = hi                             # shares the parent's end
            if b < a:
                a, b = b, a
            spans.append((a, b))
            if b > a and rnd.random() < 0.7:
                rec(a, b, depth + 1)
            if rnd.random() < 0.12:
                spans.append((a, b))               # duplicate span (identical or stacked zero)
            if rnd.random() < 0.1 and b > a:
                spans.append((rnd.choice([a, b]), ) * 2)   # zero-duration event on an endpoint

    rec(0, tmax, 0)
    out = spans[:n_max]
    return out if _laminar(out) else _repair(out)


def _laminar(spans: List[Span]) -> bool:
    pos = [s for s in spans if s[1] > s[0]]
    for (a, b), (c, d) in itertools.combinations(pos, 2):
        if not (b <= c or d <= a or (a <= c and d <= b) or (c <= a and b <= d)):
            return False
    return True


def _repair(spans: List[Span]) -> List[Span]:
    out: List[Span] = []
    for s in spans:
        if _laminar(out + [s]):
            out.append(s)
    return out


def assign_ids(rnd: random.Random, spans: List[Span], mode: str) -> List[List[int]]:
    """-> rows [id, ts, end] sorted by id (file order = id order)."""
    n = len(spans)
    if mode == "seq":
        ids = list(range(n))
    elif mode == "shuffled":
        ids = list(range(n))
        rnd.shuffle(ids)
    elif mode == "reversed":
        ids = list(range(n))[::-1]
    else:                                           # sparse, increasing but with gaps and an offset
        ids = sorted(rnd.sample(range(1, 5 * n + 10), n))
        if rnd.random() < 0.5:
            rnd.shuffle(ids)
    rows = [[ids[k], a, b] for k, (a, b) in enumerate(spans)]
    rows.sort()
    return rows


def enumerate_families(n: int, tmax: int) -> Iterator[List[Span]]:
    """All multisets of n spans over 0..tmax (zero-length allowed) that are laminar."""
    all_spans = [(a, b) for a in range(tmax + 1) for b in range(a, tmax + 1)]
    for combo in itertools.combinations_with_replacement(all_spans, n):
        if _laminar(list(combo)):
            yield list(combo)


def tie_classes(rows: List[List[int]]) -> Dict[str, int]:
    c = {k: 0 for k in ("shared_start", "shared_end", "identical", "touching", "zero_at_start", "zero_at_end",
                        "zero_inside", "zero_alone", "zero_stacked", "k1")}
    pos = [(a, b) for _, a, b in rows if b > a]
    zer = [a for _, a, b in rows if a == b]
    for (a, b), (x, y) in itertools.combinations(pos, 2):
        if (a, b) == (x, y):
            c["identical"] += 1
        else:
            if a == x:
                c["shared_start"] += 1
            if b == y:
                c["shared_end"] += 1
        if b == x or y == a:
            c["touching"] += 1
    for t in zer:
        st = any(a == t for a, b in pos)
        en = any(b == t for a, b in pos)
        ins = any(a < t < b for a, b in pos)
        if st:
            c["zero_at_start"] += 1
        if en:
            c["zero_at_end"] += 1
        if ins:
            c["zero_inside"] += 1
        if not (st or en or ins):
            c["zero_alone"] += 1
        if st and en:
            c["k1"] += 1
    if len(zer) != len(set(zer)):
        c["zero_stacked"] += 1
    return c
