"""Runs in a fresh interpreter (its own PYTHONHASHSEED): loads a trace directory and prints id-free digests
of the loaded frames and of the analysis getters (names decoded, rows canonically sorted), plus the symbol
table ordering actually produced.   python -m hv.c11_digest <dir> <use_multiprocessing 0|1>"""
from __future__ import annotations

import hashlib
import json
import sys


def canon(df, st, cols=None):  # noqa: ANN001
    import pandas as pd

    if df is None:
        return "None"
    if isinstance(df, dict):
        return {str(k): canon(v, st) for k, v in sorted(df.items())}
    if isinstance(df, tuple):
        return [canon(x, st) for x in df]
    if isinstance(df, pd.Series):
        df = df.reset_index()
    d = df.copy()
    if "s_user_annotation" in d.columns and "user_annotation" in d.columns:
        d = d.drop(columns=["user_annotation"])          # raw symbol id; its decoded form stays
    for c in ("name", "cat"):
        if c in d.columns and d[c].dtype.kind in "iu":
            d[c] = d[c].apply(lambda i: st[i] if 0 <= i < len(st) else f"<bad id {i}>")
    d = d[sorted(d.columns, key=str)]
    rows = sorted(json.dumps([None if (isinstance(x, float) and x != x) else (round(x, 9) if isinstance(x, float) else (x.item() if hasattr(x, "item") else x))
                              for x in r], default=str) for r in d.itertuples(index=False, name=None))
    return hashlib.sha1("\n".join(rows).encode()).hexdigest()[:16] + f":{len(rows)}"


def main() -> None:
    import logging
    import warnings

    warnings.filterwarnings("ignore")
    logging.getLogger("hta").setLevel(logging.CRITICAL)
    d, mp = sys.argv[1], sys.argv[2] == "1"
    from hta.common.trace import Trace
    from hta.trace_analysis import TraceAnalysis

    out = {}
    t = Trace(trace_dir=d)
    t.load_traces(use_multiprocessing=mp)
    st = t.symbol_table.get_sym_table()
    out["symbol_order"] = hashlib.sha1("\x00".join(st).encode()).hexdigest()[:12]
    out["n_symbols"] = len(st)
    for r in t.get_ranks():
        out[f"frame[{r}]"] = canon(t.get_trace(r), st)
    ta = TraceAnalysis.__new__(TraceAnalysis)
    ta.t = t
    ranks = t.get_ranks()

    def run(name, fn):  # noqa: ANN001
        try:
            out[name] = canon(fn(), st)
        except Exception as e:  # noqa: BLE001
            out[name] = f"raised {type(e).__name__}"

    run("temporal_breakdown", lambda: ta.get_temporal_breakdown(visualize=False))
    run("kernel_breakdown", lambda: ta.get_gpu_kernel_breakdown(visualize=False, num_kernels=3))
    run("comm_comp_overlap", lambda: ta.get_comm_comp_overlap(visualize=False))
    run("idle_time", lambda: ta.get_idle_time_breakdown(ranks=ranks, visualize=False)[0])
    run("launch_stats", lambda: ta.get_cuda_kernel_launch_stats(ranks=ranks, visualize=False))
    run("queue_length", lambda: ta.get_queue_length_time_series(ranks))
    run("memory_bw", lambda: ta.get_memory_bw_time_series(ranks))
    for r in ranks:
        run(f"gpu_kernels_with_user_annotations[{r}]", lambda r=r: ta.get_gpu_kernels_with_user_annotations(r))
    for ugpu in (True, False):
        run(f"user_annotation_breakdown[gpu={ugpu}]", lambda u=ugpu: ta.get_gpu_user_annotation_breakdown(use_gpu_annotation=u, visualize=False))
    run("profiler_steps", lambda: __import__("pandas").DataFrame({"s": ta.get_profiler_steps()}))

    def cp():  # noqa: ANN001
        g, ok = ta.critical_path_analysis(rank=ranks[0], annotation="", instance_id=None)
        return g.get_critical_path_breakdown()[["duration", "type", "s_name", "bound_by"]] if ok else None
    run("critical_path_breakdown", cp)
    print("DIGEST " + json.dumps(out, sort_keys=True))


if __name__ == "__main__":
    main()
