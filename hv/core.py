"""Shared plumbing: seeds, result records, scratch directories, quiet logging, dependency path."""
from __future__ import annotations

import collections
import contextlib
import fcntl
import hashlib
import json
import os
import random
import shutil
import subprocess
import sys
import tempfile
from dataclasses import dataclass, field
from typing import Any, Dict, List, Optional

VERIF_HOME = os.environ.get("VERIF_HOME") or os.path.dirname(os.path.dirname(os.path.abspath(__file__)))
REPO = os.environ.get("VERIF_REPO", "/repo")
DEPS = os.path.join(VERIF_HOME, ".deps")
WHEELS = "/opt/veriftools/wheels"


# --------------------------------------------------------------------------- deps
def ensure_deps() -> None:
    """Install icontract/deal offline into the git-ignored .deps (idempotent, under a file lock) and
    append it to sys.path (appended, so its typing_extensions cannot shadow the one pandas uses)."""
    marker = os.path.join(DEPS, "icontract", "__init__.py")
    if not os.path.exists(marker):
        os.makedirs(DEPS, exist_ok=True)
        with open(os.path.join(VERIF_HOME, ".deps.lock"), "w") as lk:
            fcntl.flock(lk, fcntl.LOCK_EX)
            if not os.path.exists(marker):
                subprocess.run(
                    ["/venv/bin/pip", "install", "--quiet", "--no-index", "--find-links", WHEELS,
                     "--target", DEPS, "icontract", "deal"],
                    check=True, stdout=subprocess.DEVNULL, stderr=subprocess.PIPE,
                    env={**os.environ, "PIP_NO_INDEX": "1"},
                )
    if DEPS not in sys.path:
        sys.path.append(DEPS)


# --------------------------------------------------------------------------- seeds
def rng(*parts: Any) -> random.Random:
    """Deterministic PRNG from a tuple of parts (string seeding is hash-seed independent)."""
    return random.Random("|".join(str(p) for p in parts))


def digest(obj: Any) -> str:
    return hashlib.sha1(json.dumps(obj, sort_keys=True, default=str).encode()).hexdigest()[:16]


# --------------------------------------------------------------------------- records
@dataclass
class Violation:
    clause: str            # short name of the violated clause of the property
    detail: str            # human-readable description with the concrete values
    witness: Dict[str, Any] = field(default_factory=dict)  # structured data for classifiers / replay

    def to_json(self) -> Dict[str, Any]:
        return {"clause": self.clause, "detail": self.detail, "witness": self.witness}


@dataclass
class CaseResult:
    violations: List[Violation] = field(default_factory=list)
    nontrivial: bool = False
    trivial_reason: str = ""
    counters: collections.Counter = field(default_factory=collections.Counter)
    key: Optional[str] = None          # canonical hash of the case (distinctness)
    sample: Any = None                 # small printable description of the case
    discarded: bool = False            # out of regime / generator rejected (never a violation)
    discard_reason: str = ""

    def bad(self, clause: str, detail: str, **witness: Any) -> None:
        self.violations.append(Violation(clause, detail, witness))


class HarnessError(Exception):
    """Raised for problems in harness/oracle code: the run becomes inconclusive, never a violation."""


class OutOfRegime(Exception):
    """Case does not satisfy the property's preconditions; counted as discarded."""


# --------------------------------------------------------------------------- scratch
class Scratch:
    """Per-shard scratch directory under $TMPDIR; removed when the shard ends."""

    def __init__(self, tag: str) -> None:
        self.root = tempfile.mkdtemp(prefix=f"hv_{tag}_")
        self._n = 0

    def new(self, name: str = "c") -> str:
        self._n += 1
        d = os.path.join(self.root, f"{name}{self._n}")
        os.makedirs(d)
        return d

    def drop(self, d: str) -> None:
        shutil.rmtree(d, ignore_errors=True)

    def close(self) -> None:
        shutil.rmtree(self.root, ignore_errors=True)


def _pretty_with_trailing_rank(tr: Dict[str, Any], ensure_ascii: bool) -> str:
    """The layout of a file that went through the library's own update_trace_rank() or a pretty-printer: one value per line and the
    `distributedInfo` block *after* the event list, several thousand lines into the file (blank lines stand in for the bulk of
    a large trace; whitespace between JSON tokens carries no meaning)."""
    body = {k: v for k, v in tr.items() if k != "distributedInfo"}
    s = json.dumps(body, indent=1, ensure_ascii=ensure_ascii)
    assert s.endswith("\n}")
    pad = "\n" * max(0, 4300 - s.count("\n"))
    return s[:-2] + "," + pad + '\n "distributedInfo": ' + json.dumps(tr["distributedInfo"], ensure_ascii=ensure_ascii) + "\n}\n"


def write_trace_files(dirpath: str, files: Dict[str, Any]) -> Dict[int, str]:
    """files: {filename: trace-dict}.  '.gz' names are gzip-compressed.  Returns {rank: path} using
    distributedInfo.rank when present, else enumeration order."""
    import gzip

    out: Dict[int, str] = {}
    for i, (fname, tr) in enumerate(files.items()):
        p = os.path.join(dirpath, fname)
        # Kineto writes names as raw UTF-8; Python's json default escapes them.  Both forms occur: every other file (by name and
        # size, deterministic) is written with the characters themselves.
        raw_utf8 = (len(fname) + (len(tr.get("traceEvents", [])) if isinstance(tr, dict) else 0) + i) % 2 == 0
        text = None
        if isinstance(tr, dict) and isinstance(tr.get("distributedInfo"), dict) and isinstance(tr.get("traceEvents"), list) and tr["traceEvents"] \
                and (len(fname) + len(tr["traceEvents"]) + i) % 5 == 3:
            text = _pretty_with_trailing_rank(tr, not raw_utf8)
        if fname.endswith(".gz"):
            with gzip.open(p, "wt", encoding="utf-8") as fh:
                fh.write(text) if text is not None else json.dump(tr, fh, ensure_ascii=not raw_utf8)
        else:
            with open(p, "w", encoding="utf-8") as fh:
                fh.write(text) if text is not None else json.dump(tr, fh, ensure_ascii=not raw_utf8)
        r = tr.get("distributedInfo", {}).get("rank", i) if isinstance(tr, dict) else i
        out[int(r)] = p
    return out


# --------------------------------------------------------------------------- quiet
def quiet_hta() -> None:
    import logging
    import warnings

    logging.getLogger("hta").setLevel(logging.CRITICAL)
    logging.getLogger().setLevel(logging.CRITICAL)
    # warnings raised from hta files are tapped by hv.mon.taps; everything else is noise here
    warnings.filterwarnings("ignore")


@contextlib.contextmanager
def env(**kv: Optional[str]):
    old = {k: os.environ.get(k) for k in kv}
    try:
        for k, v in kv.items():
            if v is None:
                os.environ.pop(k, None)
            else:
                os.environ[k] = v
        yield
    finally:
        for k, v in old.items():
            if v is None:
                os.environ.pop(k, None)
            else:
                os.environ[k] = v


def short(obj: Any, n: int = 400) -> str:
    s = obj if isinstance(obj, str) else json.dumps(obj, default=str)
    return s if len(s) <= n else s[: n - 3] + "..."


def num(x: Any) -> Any:
    """numpy / pandas scalar -> plain Python number (int when integral), so harness arithmetic neither wraps nor truncates."""
    if hasattr(x, "item"):
        x = x.item()
    if isinstance(x, float) and x == x and x not in (float("inf"), float("-inf")) and x == int(x):
        return int(x)
    return x


# set by the shard while a case runs with a fractional time unit (files scaled by a dyadic constant, loaded with
# HTA_DISABLE_NS_ROUNDING=1): the reference model then keeps the file's fractional times instead of rounding them inward
FLOAT_MODE = False


def same_symbol(decoded: Any, in_file: Any) -> bool:
    """A decoded name / category vs. the file's value; a field the file omits is a missing value (NaN) after decoding."""
    if in_file is None:
        return decoded is None or (isinstance(decoded, float) and decoded != decoded)
    return decoded == in_file
