"""Regime predicates, computed from RAW events only (via hv.ref.raw.model).

well_formed      : laminar host threads, correlation id at most once per side, positive device stream
                   ids, event 0 is a host operator, >= 1 complete event.
causal           : linked device activity starts no earlier than its launch call starts; kernels of one
                   stream neither overlap nor share a start; for every (host sync call, cuda_sync event)
                   pair, every device activity on the covered stream(s) that starts before the sync
                   event ends has ended by the time the host call returns.
A generated case that fails its own regime predicate is a generator bug: it is discarded and counted,
never reported as a violation.
"""
from __future__ import annotations

from typing import Dict, List, Optional, Tuple

from hv.ref.raw import Ev

DEVICE_CATS = ("kernel", "gpu_memcpy", "gpu_memset")


def is_device_activity(e: Ev) -> bool:
    return e.stream != -1 and e.cat != "cuda_sync"


def host_threads(evs: List[Ev]) -> Dict[Tuple, List[Ev]]:
    out: Dict[Tuple, List[Ev]] = {}
    for e in evs:
        if e.stream == -1 and e.cat != "cuda_sync":
            out.setdefault((e.pid, e.tid), []).append(e)
    return out


def laminar(thread_evs: List[Ev]) -> Optional[str]:
    """Properly nested: any two positive-duration spans are disjoint (touching allowed) or one contains
    the other.  Zero-duration events never break nesting."""
    ev = sorted((e for e in thread_evs if e.dur > 0), key=lambda e: (e.ts, -e.end, e.id))
    stack: List[Ev] = []
    for e in ev:
        while stack and stack[-1].end <= e.ts:
            stack.pop()
        if stack and e.end > stack[-1].end:
            return f"events {stack[-1].id} [{stack[-1].ts},{stack[-1].end}] and {e.id} [{e.ts},{e.end}] partially overlap"
        stack.append(e)
    return None


def tree_parents(thread_evs: List[Ev]) -> Dict[int, int]:
    """Innermost-enclosing parent of every event of a laminar thread (identical spans nest in id order,
    touching spans are siblings; a zero-duration event is placed under the innermost positive span whose
    closed interval contains it, preferring the opener at a shared instant).  -1 = root."""
    pos = [e for e in thread_evs if e.dur > 0]
    par: Dict[int, int] = {}
    for e in thread_evs:
        best = None
        for q in pos:
            if q.id == e.id:
                continue
            if e.dur > 0:
                contains = q.ts <= e.ts and e.end <= q.end and ((q.ts, q.end) != (e.ts, e.end) or q.id < e.id)
            else:
                contains = q.ts <= e.ts <= q.end
            if contains:
                key = (q.dur, -q.id)
                if best is None or key < best[0]:
                    best = (key, q.id)
        par[e.id] = best[1] if best else -1
    return par


def k1_instants(thread_evs: List[Ev]) -> set:
    zero = {e.ts for e in thread_evs if e.dur == 0}
    closes = {e.end for e in thread_evs if e.dur > 0}
    opens = {e.ts for e in thread_evs if e.dur > 0}
    return zero & closes & opens


def well_formed(evs: List[Ev], raw_events: List[dict], rounded_away_device_ok: bool = False, shared_device_corr_ok: bool = False) -> Optional[str]:
    """rounded_away_device_ok: a device record shorter than 1us whose inward rounding gives end < ts is accepted (link structure
    does not depend on its extent).  shared_device_corr_ok: several device activities may carry the correlation id of one launch call
    (CUDA graph replay); for properties that only need "the launch call of a device activity"."""
    if not evs:
        return "no complete event"
    e0 = raw_events[0] if raw_events else None
    if not (isinstance(e0, dict) and e0.get("cat") in ("cpu_op", "user_annotation") and e0.get("dur") is not None):
        return "event 0 is not a host operator"
    seen: Dict[Tuple[int, bool], int] = {}
    for e in evs:
        if e.corr < -1:
            return f"negative correlation id on event {e.id}"
        if e.corr != -1:
            k = (e.corr, e.device_side)
            if k in seen and not (shared_device_corr_ok and e.device_side):
                return f"correlation id {e.corr} occurs twice on one side (events {seen[k]}, {e.id})"
            seen[k] = e.id
        if e.cat in DEVICE_CATS and e.stream <= 0:
            return f"device activity {e.id} on non-positive stream {e.stream}"
        if e.dur < 0 and not (rounded_away_device_ok and e.cat in DEVICE_CATS and e.dur == -1):
            return f"negative duration on event {e.id}"
    for key, th in host_threads(evs).items():
        msg = laminar(th)
        if msg:
            return f"thread {key}: {msg}"
    return None


def links(evs: List[Ev]) -> Dict[int, int]:
    """id -> linked id (only for mutually linked pairs)."""
    by: Dict[Tuple[int, bool], int] = {}
    for e in evs:
        if e.corr != -1:
            by[(e.corr, e.device_side)] = e.id
    out = {}
    for e in evs:
        if e.corr != -1:
            o = by.get((e.corr, not e.device_side))
            if o is not None:
                out[e.id] = o
    return out


def causal(evs: List[Ev], zero_len_shared_start_ok: bool = False) -> Optional[str]:
    """zero_len_shared_start_ok: a zero-duration activity may start in the instant the next activity of its stream starts (they do not
    overlap; the zero-duration one comes first)."""
    byid = {e.id: e for e in evs}
    lk = links(evs)
    streams: Dict[int, List[Ev]] = {}
    for e in evs:
        if is_device_activity(e) and e.cat not in ("gpu_user_annotation", "cuda_profiler_range"):
            # (GPU-side annotations / profiler ranges span the kernels of their stream: they are not activities of the stream)
            streams.setdefault(e.stream, []).append(e)
            h = lk.get(e.id)
            if h is not None and e.ts < byid[h].ts:
                return f"device activity {e.id} starts at {e.ts} before its launch call {h} starts at {byid[h].ts}"
    for s, ks in streams.items():
        ks.sort(key=lambda e: (e.ts, e.end))
        for a, b in zip(ks, ks[1:]):
            if b.ts == a.ts and not (zero_len_shared_start_ok and a.dur == 0):
                return f"stream {s}: activities {a.id} and {b.id} share start {a.ts}"
            if b.ts < a.end:
                return f"stream {s}: activities {a.id} and {b.id} overlap"
    for e in evs:
        if e.cat == "cuda_sync" and e.name in ("Stream Sync", "Context Sync"):
            h = lk.get(e.id)
            if h is None:
                continue
            H = byid[h]
            covered = [e.stream] if e.name == "Stream Sync" else list(streams)
            for s in covered:
                for k in streams.get(s, []):
                    # (an activity starting in the very instant the sync record completes was not waited for)
                    if k.ts < e.end and k.end > H.end:
                        return (f"{e.name} {e.id} (ends {e.end}, host call {h} returns {H.end}): activity {k.id} on stream {s} "
                                f"starts {k.ts} but ends {k.end}")
    return None
