"""Debug helper: regenerate one generated case and run it in-process.
   python -m hv.dbg C01 quick 0 39 [--dump path]"""
import sys, json, importlib
from hv import core
def main():
    prop, tier, seed, ident = sys.argv[1], sys.argv[2], int(sys.argv[3]), sys.argv[4]
    core.ensure_deps(); core.quiet_hta()
    from hv.shard import Ctx
    from hv.mon import taps
    mod = importlib.import_module(f"hv.props.{prop.lower()}")
    ctx = Ctx(prop, tier, seed, 0); ctx.taps = taps.install()
    if hasattr(mod, "setup"): mod.setup(ctx)
    ident_v = int(ident) if ident.lstrip("-").isdigit() else ident
    case = mod.gen_case(core.rng(seed, prop, tier, ident_v), tier, ident_v)
    if "--dump" in sys.argv:
        json.dump(case, open(sys.argv[sys.argv.index("--dump") + 1], "w"), default=str)
    r = mod.run_case(case, ctx)
    print("nontrivial", r.nontrivial, "discarded", r.discarded, r.discard_reason, dict(r.counters))
    for v in r.violations: print("VIOL", v.clause, v.detail[:1500])
    print("monitor", dict(ctx.monitor)); print("taps", ctx.taps.report())
    ctx.scratch.close()
    return case, r
if __name__ == "__main__":
    main()
