"""hv — runtime-monitoring harness for HolisticTraceAnalysis (properties C01..C20)."""
