"""G-int: hostile interval arrangements of device activities on streams (C04, C05, C07).

Per rank 1-40 activities on 1-4 streams with start/end drawn from a small range, so that overlap
across streams, nesting, touching, identical and zero-length spans are the norm; names from all four
kernel types (COMPUTATION, COMMUNICATION, MEMORY, OTHER)."""
from __future__ import annotations

import random
from typing import Any, Dict, List

COMP = ["gemm_a", "gemm_b", "void elementwise<4>(int)", "relu_kernel", "softmax_fwd", "triton_poi_fused_0", "fooMemset",
        # names that merely start with "nccl" or contain the communication pattern elsewhere are ordinary computation kernels
        "nccl_allreduce_pack_half2", "nccl:all_reduce", "my_ncclKernel_wrapper"]
COMM = ["ncclKernel_AllReduce_RING_LL_Sum_float", "ncclDevKernel_AllGather_RING_LL(ncclDevComm*)", "ncclKernel_ReduceScatter"]
MEM = ["Memcpy HtoD (Pinned -> Device)", "Memcpy DtoH (Device -> Pinned)", "Memcpy DtoD (Device -> Device)", "Memset (Device)", "dma_copy"]
OTHER = ["fooSync", "barMemcpy", "Stream Sync", "nccl_prologue_Sync",
         # the words that decide the type sit inside template / call arguments only (the full name is what is classified)
         "void cutlass::Kernel<cutlass::arch::SyncPolicy<8>>(Params)", "void at::native::apply<MemcpyFunctor<float>>(int, float*)"]


def gen_rank(rnd: random.Random, rank: int, p: Dict[str, Any]) -> Dict[str, Any]:
    T, base = p["T"], p["base"]
    pools = {"COMPUTATION": rnd.sample(COMP, rnd.randint(1, len(COMP))), "COMMUNICATION": rnd.sample(COMM, rnd.randint(1, len(COMM))),
             "MEMORY": rnd.sample(MEM, rnd.randint(1, len(MEM))), "OTHER": rnd.sample(OTHER, rnd.randint(1, len(OTHER)))}
    if p.get("same_vocab"):
        # every rank speaks exactly the same vocabulary (a later rank brings no new symbol, only another order of first use)
        pools = {"COMPUTATION": list(COMP), "COMMUNICATION": list(COMM), "MEMORY": list(MEM), "OTHER": list(OTHER)}
    if p["many_names"]:
        pools["COMPUTATION"] = pools["COMPUTATION"] + [f"kernel_variant_{i}" for i in range(rnd.randint(3, 12))]
        if rnd.random() < 0.3:
            pools["COMPUTATION"].append("others")        # a kernel may literally be called like the aggregate row
    weights = p["type_weights"]
    streams = rnd.sample([0, 7, 20, 24, 28], p["n_streams"])      # 0 = legacy default stream (ROCm / Triton traces use it)
    ev: List[Dict[str, Any]] = [{"ph": "X", "cat": "cpu_op", "name": "aten::mm", "pid": 4000 + rank, "tid": 4000 + rank,
                                 "ts": base + rnd.randint(0, 3), "dur": T + 5, "args": {"External id": 1}}]
    spans = []
    for k in range(p["n_act"]):
        r = rnd.random()
        if p.get("skew") and k == 0:
            a, b = 0, T                                       # one activity as long as the whole window ...
        elif p.get("skew"):
            a = rnd.randint(0, T - 3)
            b = a + rnd.randint(0, 3)                         # ... next to activities more than 10000 times shorter
        elif spans and r < 0.15:
            a, b = rnd.choice(spans)                         # identical span
        elif spans and r < 0.3:
            a0, b0 = rnd.choice(spans)
            a, b = b0, min(T, b0 + rnd.randint(0, max(1, T // 4)))   # touching
        elif spans and r < 0.4:
            a0, b0 = rnd.choice(spans)
            a = rnd.randint(a0, b0)
            b = rnd.randint(a, b0)                            # nested
        else:
            a = rnd.randint(0, T)
            b = rnd.randint(a, T)
        if rnd.random() < p["p_zero"]:
            b = a
        spans.append((a, b))
        ty = rnd.choices(["COMPUTATION", "COMMUNICATION", "MEMORY", "OTHER"], weights)[0]
        nm = rnd.choice(pools[ty])
        s = rnd.choice(streams)
        cat = "cuda_sync" if nm == "Stream Sync" else ("gpu_memcpy" if nm.startswith("Memcpy") else "gpu_memset" if nm.startswith("Memset") else "kernel")
        args = {"correlation": 500 + k, "stream": s, "device": 0}
        if rnd.random() < p.get("p_no_corr", 0.0):
            del args["correlation"]              # a device activity whose launch was not recorded (no correlation id at all)
        if cat in ("gpu_memcpy", "gpu_memset"):
            args.update({"bytes": 1024, "memory bandwidth (GB/s)": rnd.choice([0.5, 1.25, 12.0])})
        ev.append({"ph": "X", "cat": cat, "name": nm, "pid": 0, "tid": s, "ts": base + a, "dur": b - a, "args": args})
    # GPU user annotations (no stream argument, as Kineto writes them) and host user annotations: only the
    # annotation breakdown (C05, same aggregator) looks at them
    for k in range(p.get("n_ann", 0)):
        a = rnd.randint(0, T)
        b = rnd.randint(a, T)
        gpu = rnd.random() < 0.6
        ev.append({"ph": "X", "cat": "gpu_user_annotation" if gpu else "user_annotation", "name": rnd.choice(p["ann_names"]),
                   "pid": 0 if gpu else 4000 + rank, "tid": rnd.choice(streams) if gpu else 4000 + rank, "ts": base + a, "dur": b - a, "args": {}})
    if p.get("force_comm"):
        a = rnd.randint(0, T - 1)
        b = rnd.randint(a + 1, T)
        s = rnd.choice(streams)
        ev.append({"ph": "X", "cat": "kernel", "name": rnd.choice(COMM), "pid": 0, "tid": s, "ts": base + a, "dur": b - a,
                   "args": {"correlation": 499, "stream": s, "device": 0}})
    if p["shuffle"]:
        head, rest = ev[:1], ev[1:]
        rnd.shuffle(rest)
        ev = head + rest
    ev.append({"ph": "M", "name": "process_name", "pid": 4000 + rank, "tid": 0, "ts": base, "args": {"name": "python"}})
    return {"schemaVersion": 1, "distributedInfo": {"backend": "nccl", "rank": rank, "world_size": 4}, "traceEvents": ev}


def gen_case(rnd: random.Random, tier: str, need_comm: bool = False, annotations: bool = False) -> Dict[str, Any]:
    n_ranks = rnd.choice([1, 1, 2, 3, 4])
    T = rnd.choice([6, 12, 40, 1000])
    skew = rnd.random() < 0.08
    if skew:
        T = rnd.choice([60_000, 250_000])      # shares far below the rounding step of the percentage columns
    base = rnd.choice([0, 1000, 10 ** 6, 1_700_000_000_000_000])     # ranks share one clock (aligned times stay small)
    many = rnd.random() < 0.04
    if many:
        n_ranks = rnd.choice([9, 10, 12])      # more than 8 ranks: the loader sizes its pool differently; one rank much larger
    files = {}
    # the ranks of a job need not be 0..n-1 (a subset of a larger job's files; a single file of rank 6)
    labels = list(range(n_ranks)) if rnd.random() < 0.6 or many else sorted(rnd.sample([0, 1, 2, 3, 5, 6, 8, 13, 64], n_ranks))
    p_no_corr = rnd.choice([0.0, 0.0, 0.15, 0.4])
    same_vocab = n_ranks > 1 and rnd.random() < 0.35
    for r in labels:
        w = rnd.choice([[5, 3, 2, 1], [1, 1, 1, 1], [6, 1, 0, 0], [3, 3, 3, 0]])
        if need_comm and w[1] == 0:
            w = [3, 3, 1, 1]
        p = {"T": T, "base": base + rnd.choice([0, 0, 3, 500]), "n_act": rnd.randint(1, rnd.choice([4, 14, 40])),
             "n_streams": rnd.choice([1, 2, 3, 4]), "p_zero": rnd.choice([0.0, 0.15, 0.3]), "type_weights": w,
             "many_names": rnd.random() < 0.5, "shuffle": rnd.random() < 0.5, "force_comm": need_comm, "p_no_corr": p_no_corr, "same_vocab": same_vocab, "skew": skew,
             "n_ann": rnd.choice([0, 0, 3, 12]) if annotations else 0,
             "ann_names": rnd.sample(["fwd", "bwd", "opt", "nccl:all_reduce", "fwd_block_1", "fwd_block_2", "loss", "data", "others"], rnd.randint(1, 9))}
        if many and r == labels[0] and not skew:
            p["n_act"] = 1500                  # the first file takes far longer to parse than the others
        files[f"rank{r}.json"] = gen_rank(rnd, r, p)
    if same_vocab:
        # later ranks: the first rank's events under the same names, other durations and another order in the file, so that they
        # bring no symbol of their own
        import copy
        names = list(files)
        base_tr = files[names[0]]
        for fn, r in zip(names[1:], labels[1:]):
            tr = copy.deepcopy(base_tr)
            head, rest = tr["traceEvents"][:1], [e for e in tr["traceEvents"][1:]]
            for e in rest:
                if e.get("ph") == "X" and isinstance(e.get("dur"), int):
                    e["dur"] = max(0, e["dur"] + rnd.choice([0, 0, 1, 3]))
                if isinstance(e.get("pid"), int) and e["pid"] >= 4000:
                    e["pid"] = e["tid"] = 4000 + r
            rnd.shuffle(rest)
            head[0]["pid"] = head[0]["tid"] = 4000 + r
            tr["traceEvents"] = head + rest
            tr["distributedInfo"] = dict(tr["distributedInfo"], rank=r)
            files[fn] = tr
    return {"files": files}
