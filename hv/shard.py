"""One shard of a check: runs in its own process (fresh import of the repository's current sources),
generates its share of the cases, drives the real code under the monitors and writes a JSON result.

    python -m hv.shard C01 --tier quick --seed 0 --shard 3 --nshards 16 --cases 600 --out r.json
    python -m hv.shard C01 --replay path.json --out r.json
"""
from __future__ import annotations

import argparse
import collections
import faulthandler
import importlib
import json
import os
import sys
import time
import traceback

from hv import core


class Ctx:
    """What a property driver gets: scratch space, tier, monitor registry, counters."""

    def __init__(self, prop_id: str, tier: str, seed: int, shard: int) -> None:
        self.prop_id, self.tier, self.seed, self.shard = prop_id, tier, seed, shard
        self.scratch = core.Scratch(f"{prop_id}_{shard}")
        self.monitor: collections.Counter = collections.Counter()   # contract / hook evaluation counts
        self.notes: dict = {}
        self.taps = None


def _replay_dir(prop_id: str) -> str:
    d = os.path.join(core.VERIF_HOME, "replays", prop_id)
    os.makedirs(d, exist_ok=True)
    return d


def _run_with_unit(mod, case, ctx):  # noqa: ANN001
    """Workload class 'fractional time unit': the same trace recorded at sub-microsecond resolution (every ts / dur times a
    dyadic constant, exact in doubles) and loaded with the documented option HTA_DISABLE_NS_ROUNDING=1, so that all time
    columns are float.  Drivers and oracles are unchanged: they read the scaled files."""
    keys = getattr(mod, "FLOAT_KEYS", None)
    unit = case.get("time_unit", 1) if isinstance(case, dict) else 1
    if unit == 1 or not keys or not all(isinstance(case.get(k), dict) for k in keys):
        return mod.run_case(case, ctx)
    from hv import gen_sim

    c2 = dict(case, time_unit=1, time_unit_applied=unit)
    for k in keys:
        c2[k] = gen_sim.scaled_files(case[k], unit)
    if c2.get("post_edits"):
        c2["post_edits"] = [[fn, idx, dur * unit] for fn, idx, dur in c2["post_edits"]]
    core.FLOAT_MODE = True
    try:
        with core.env(HTA_DISABLE_NS_ROUNDING="1"):
            r = mod.run_case(c2, ctx)
    finally:
        core.FLOAT_MODE = False
    r.counters["fractional_time_cases"] += 1
    return r


def run(argv=None) -> int:
    ap = argparse.ArgumentParser()
    ap.add_argument("prop")
    ap.add_argument("--tier", default="quick")
    ap.add_argument("--seed", type=int, default=0)
    ap.add_argument("--shard", type=int, default=0)
    ap.add_argument("--nshards", type=int, default=1)
    ap.add_argument("--cases", type=int, default=0)
    ap.add_argument("--replay", default=None)
    ap.add_argument("--out", required=True)
    a = ap.parse_args(argv)

    faulthandler.enable()
    core.ensure_deps()
    core.quiet_hta()
    from hv import kf
    from hv.mon import taps

    mod = importlib.import_module(f"hv.props.{a.prop.lower()}")
    ctx = Ctx(a.prop, a.tier, a.seed, a.shard)
    ctx.taps = taps.install()
    t0 = time.time()
    res = {
        "prop": a.prop, "shard": a.shard, "evaluations": 0, "nontrivial_keys": [], "counters": {},
        "samples": [], "violations": [], "known": {}, "discarded": 0, "discard_reasons": {},
        "harness_errors": [], "monitor": {}, "notes": {}, "trivial_reasons": {},
    }
    counters: collections.Counter = collections.Counter()
    discard: collections.Counter = collections.Counter()
    trivial: collections.Counter = collections.Counter()
    known: collections.Counter = collections.Counter()
    nontrivial_keys = set()
    max_replays = 6
    try:
        if hasattr(mod, "setup"):
            mod.setup(ctx)
        if a.replay:
            with open(a.replay) as fh:
                rep = json.load(fh)
            todo = [("replay", rep["case"])]
        else:
            todo = []
            fixed = mod.fixed_cases(a.tier) if hasattr(mod, "fixed_cases") else []
            for j, c in enumerate(fixed):
                if j % a.nshards == a.shard:
                    todo.append((f"fixed{j}", c))
            for i in range(a.shard, a.cases, a.nshards):
                todo.append((i, None))
        for ident, case in todo:
            try:
                if case is None:
                    rnd = core.rng(a.seed, a.prop, a.tier, ident)
                    case = mod.gen_case(rnd, a.tier, ident)
                    if getattr(mod, "FLOAT_KEYS", None) and isinstance(case, dict) and "time_unit" not in case and all(isinstance(case.get(k), dict) for k in mod.FLOAT_KEYS):
                        case["time_unit"] = core.rng(a.seed, a.prop, a.tier, ident, "unit").choice([1, 1, 1, 1, 0.125, 0.375])
                r = _run_with_unit(mod, case, ctx)
            except core.OutOfRegime as e:
                res["discarded"] += 1
                discard[str(e)[:80]] += 1
                continue
            except Exception as e:  # harness / oracle problem: inconclusive, never a violation
                res["harness_errors"].append(
                    {"case": str(ident), "error": f"{type(e).__name__}: {e}", "tb": traceback.format_exc(limit=8)}
                )
                if len(res["harness_errors"]) > 20:
                    break
                continue
            res["evaluations"] += 1
            counters.update(r.counters)
            if r.discarded:
                res["discarded"] += 1
                discard[r.discard_reason[:80]] += 1
                continue
            if r.nontrivial:
                nontrivial_keys.add(r.key or core.digest(case))
                if len(res["samples"]) < 2 and r.sample is not None:
                    res["samples"].append(r.sample)
            else:
                trivial[r.trivial_reason or "trivial"] += 1
            for v in r.violations:
                k = kf.classify(a.prop, v, case)
                if k is not None and kf.is_known(a.prop, k):
                    known[k] += 1
                    continue
                entry = v.to_json()
                entry["case_id"] = str(ident)
                entry["mechanism"] = k
                if len(res["violations"]) < 50:
                    if sum(1 for x in res["violations"] if x.get("replay")) < max_replays and not a.replay:
                        path = os.path.join(_replay_dir(a.prop), f"{a.tier}_s{a.seed}_{ident}_{v.clause}.json".replace("/", "_"))
                        with open(path, "w") as fh:
                            json.dump({"property": a.prop, "tier": a.tier, "seed": a.seed, "case_id": str(ident),
                                       "violation": entry, "case": case}, fh, default=str)
                        entry["replay"] = path
                    elif a.replay:
                        entry["replay"] = a.replay
                    res["violations"].append(entry)
                else:
                    res["violations_truncated"] = res.get("violations_truncated", 0) + 1
        if hasattr(mod, "finish"):
            mod.finish(ctx)
    except Exception as e:
        res["harness_errors"].append({"case": "shard", "error": f"{type(e).__name__}: {e}", "tb": traceback.format_exc(limit=10)})
    finally:
        ctx.scratch.close()
    res["nontrivial_keys"] = sorted(nontrivial_keys)
    res["counters"] = dict(counters)
    res["discard_reasons"] = dict(discard)
    res["trivial_reasons"] = dict(trivial)
    res["known"] = dict(known)
    res["monitor"] = dict(ctx.monitor)
    res["notes"] = ctx.notes
    res["taps"] = ctx.taps.report() if ctx.taps else {}
    res["wall_s"] = time.time() - t0
    with open(a.out, "w") as fh:
        json.dump(res, fh, default=str)
    return 0


if __name__ == "__main__":
    sys.exit(run())
