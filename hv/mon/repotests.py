"""Thorough-tier stage: the repository's own tests for a module are run *inside the shard process*, i.e. with the
harness contracts attached to the real classes/functions.  A test that passes without the contracts must pass
with them; a ContractBroken raised inside a test is a violation witnessed by the repository's own workload."""
from __future__ import annotations

import os
from typing import Any, Dict, List, Optional

from hv import core


class _Plugin:
    def __init__(self) -> None:
        self.results: Dict[str, str] = {}
        self.contract_hits: List[str] = []

    def pytest_runtest_logreport(self, report):  # noqa: ANN001
        if report.when == "call" or (report.when == "setup" and report.outcome != "passed"):
            self.results[report.nodeid] = report.outcome
            if report.outcome == "failed" and "ContractBroken" in str(report.longrepr):
                txt = str(report.longrepr)
                i = txt.find("ContractBroken")
                self.contract_hits.append(f"{report.nodeid}: {txt[i:i + 400]}")


def stable_tests(test_file: str) -> List[str]:
    """Names of the tests of <test_file> that pass on the pinned tree without any harness contract (from the baseline)."""
    import json

    with open(os.path.join(os.path.dirname(os.path.abspath(__file__)), "stable_tests.json")) as fh:
        return json.load(fh).get(test_file, [])


def run(test_file: str, res: core.CaseResult, ctx: Any, must_pass: Optional[List[str]] = None) -> None:
    import pytest

    if must_pass is None:
        must_pass = stable_tests(test_file)

    path = os.path.join(core.REPO, "tests", test_file)
    plug = _Plugin()
    cwd = os.getcwd()
    try:
        os.chdir(core.REPO)
        pytest.main(["-p", "no:cacheprovider", "-p", "no:terminal", "-W", "ignore", path], plugins=[plug])
    finally:
        os.chdir(cwd)
    res.counters["repo_tests_run_under_contracts"] += len(plug.results)
    for hit in plug.contract_hits:
        res.bad("contract-in-repo-test", f"contract fired while the repository's own test ran: {hit}")
    for name in must_pass:
        full = [k for k in plug.results if k.endswith(name)]
        if full and plug.results[full[0]] != "passed" and not plug.contract_hits:
            res.bad("repo-test-under-contracts", f"{full[0]} passes without the harness contracts but {plug.results[full[0]]} with them")
    res.nontrivial = len(plug.results) > 0
    res.sample = {"repo_test_file": test_file, "tests": len(plug.results), "passed": sum(1 for v in plug.results.values() if v == "passed")}
