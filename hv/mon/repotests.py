"""Thorough-tier stage: the repository's own tests for a module are run *inside the shard process*, i.e. with the
harness contracts attached to the real classes/functions.  A test that passes without the contracts must pass
with them; a ContractBroken raised inside a test is a violation witnessed by the repository's own workload."""
from __future__ import annotations

import os
from typing import Any, Dict, List

from hv import core


class _Plugin:
    def __init__(self) -> None:
        self.results: Dict[str, str] = {}
        self.contract_hits: List[str] = []

    def pytest_runtest_logreport(self, report):  # noqa: ANN001
        if report.when == "call" or (report.when == "setup" and report.outcome != "passed"):
            self.results[report.nodeid] = report.outcome
            if report.outcome == "failed" and "ContractBroken" in str(report.longrepr):
                txt = str(report.longrepr)
                i = txt.find("ContractBroken")
                self.contract_hits.append(f"{report.nodeid}: {txt[i:i + 400]}")


def run(test_file: str, res: core.CaseResult, ctx: Any, must_pass: List[str]) -> None:
    import pytest

    path = os.path.join(core.REPO, "tests", test_file)
    plug = _Plugin()
    cwd = os.getcwd()
    try:
        os.chdir(core.REPO)
        pytest.main(["-p", "no:cacheprovider", "-p", "no:terminal", "-W", "ignore", path], plugins=[plug])
    finally:
        os.chdir(cwd)
    res.counters["repo_tests_run_under_contracts"] += len(plug.results)
    for hit in plug.contract_hits:
        res.bad("contract-in-repo-test", f"contract fired while the repository's own test ran: {hit}")
    for name in must_pass:
        full = [k for k in plug.results if k.endswith(name)]
        if full and plug.results[full[0]] != "passed" and not plug.contract_hits:
            res.bad("repo-test-under-contracts", f"{full[0]} passes without the harness contracts but {plug.results[full[0]]} with them")
    res.nontrivial = len(plug.results) > 0
    res.sample = {"repo_test_file": test_file, "tests": len(plug.results), "passed": sum(1 for v in plug.results.values() if v == "passed")}
