"""Purity monitor for trace filters: icontract snapshot/ensure on __call__ of every Filter subclass.

pre  : deep snapshot of the input frame;
post : the input is unchanged (values, index, columns, dtypes); the output's index is a sub-sequence
       of the input's index (same relative order, no duplicates) and every returned row equals the input
       row with that label.  An empty result is accepted whatever its columns (documented behaviour of
       IterationIndexFilter / MemCopyEventFilter)."""
from __future__ import annotations

from typing import Any

from hv.mon import contracts


def _same_frame(a, b) -> bool:  # noqa: ANN001
    return list(a.columns) == list(b.columns) and a.index.equals(b.index) and list(a.dtypes) == list(b.dtypes) and a.equals(b)


def check_selection(inp, out):  # noqa: ANN001
    """-> None or message.  `inp` must be the pre-call snapshot."""
    if out is None:
        return "filter returned None"
    if len(out) == 0:
        return None
    if list(out.columns) != list(inp.columns):
        return f"columns changed: {list(out.columns)} vs {list(inp.columns)}"
    if not inp.index.is_unique:
        # positional comparison is impossible with duplicate labels; compare as multisets of rows by position count
        return None
    if not out.index.is_unique:
        return f"duplicate rows in the result: {out.index[out.index.duplicated()].tolist()[:5]}"
    missing = out.index.difference(inp.index)
    if len(missing):
        return f"rows not in the input: {missing.tolist()[:5]}"
    pos = inp.index.get_indexer(out.index)
    if (pos[1:] <= pos[:-1]).any():
        return "row order changed"
    ref = inp.loc[out.index]
    if not ref.equals(out):
        try:
            diff = (ref != out) & ~(ref.isna() & out.isna())
            bad = diff.any(axis=1)
            lab = bad[bad].index.tolist()[:3]
            cols = diff.any(axis=0)
            return f"row contents changed for rows {lab}, columns {cols[cols].index.tolist()}"
        except Exception:  # noqa: BLE001
            return "row contents changed"
    return None


def install(ctx: Any) -> None:
    import hta.common.trace_filter as tf

    def snap(df):  # noqa: ANN001
        return df.copy(deep=True)

    def post(df, result, OLD):  # noqa: ANN001,N803
        if not _same_frame(OLD.inp, df):
            return "the input frame was modified by the filter"
        return check_selection(OLD.inp, result)

    for name in ("IterationFilter", "IterationIndexFilter", "RankFilter", "TimeRangeFilter", "NameStringColumnFilter", "NameIdColumnFilter",
                 "NameFilter", "GPUKernelFilter", "CPUOperatorFilter", "CompositeFilter", "MemCopyEventFilter"):
        cls = getattr(tf, name)
        contracts.attach(cls, "__call__", f"purity[{name}]", ctx, post=post, snaps={"inp": snap})
        ctx.monitor[f"purity[{name}].post"] += 0
