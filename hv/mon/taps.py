"""Interpreter-level observers (evidence only, never verdicts on their own):

* warning tap  - warnings attributed to files under <repo>/hta are counted by (category, file, line);
* overflow tap - numpy integer/float overflow is turned into RuntimeWarning (np.seterr(over='warn'))
                 so that wrap-around on down-cast scalars inside hta shows up in the warning tap.
"""
from __future__ import annotations

import collections
import os
import warnings

from hv import core


class Taps:
    def __init__(self) -> None:
        self.counts: collections.Counter = collections.Counter()
        self.hta_prefix = os.path.join(os.path.realpath(core.REPO), "hta") + os.sep

    def _show(self, message, category, filename, lineno, file=None, line=None):  # noqa: ANN001
        try:
            fn = os.path.realpath(filename)
        except Exception:
            return
        if fn.startswith(self.hta_prefix):
            self.counts[f"{category.__name__}@{fn[len(self.hta_prefix):]}:{lineno}"] += 1

    def report(self) -> dict:
        return dict(self.counts.most_common(40))

    def overflow_hits(self) -> int:
        return sum(v for k, v in self.counts.items() if k.startswith("RuntimeWarning"))


def install() -> Taps:
    import numpy as np

    t = Taps()
    warnings.resetwarnings()
    warnings.simplefilter("always")
    warnings.showwarning = t._show
    np.seterr(over="warn")
    return t
