"""icontract contracts attached *from the harness* to the real functions the properties anchor.

Nothing in the repository is edited: the decorated function replaces the module / class attribute
(all anchored helpers are looked up in module globals or on the class at call time).  Every
condition counts its evaluations in ctx.monitor (zero evaluations => the check is inconclusive) and
raises drv.ContractBroken with the concrete witness when it fails; an error inside a condition itself
is a HarnessError (inconclusive), never a violation.
"""
from __future__ import annotations

import functools
import math
from fractions import Fraction
from typing import Any, Callable, Dict, Optional

from hv import core
from hv.drv import ContractBroken

_installed: Dict[str, bool] = {}


def _cond(name: str, ctx: Any, fn: Callable) -> Callable:
    """Wrap a condition body `fn(**kwargs) -> Optional[str]` (None = ok, str = what is wrong)."""

    @functools.wraps(fn)
    def wrapper(*a: Any, **k: Any) -> bool:
        ctx.monitor[name] += 1
        try:
            msg = fn(*a, **k)
        except ContractBroken:
            raise
        except Exception as e:  # noqa: BLE001
            raise core.HarnessError(f"contract {name} crashed: {type(e).__name__}: {e}") from e
        if msg:
            raise ContractBroken(name, msg)
        return True

    return wrapper


def attach(owner: Any, attr: str, name: str, ctx: Any, post: Optional[Callable] = None, pre: Optional[Callable] = None,
           snaps: Optional[Dict[str, Callable]] = None) -> None:
    """Decorate owner.attr with icontract require/snapshot/ensure and rebind it."""
    import icontract

    key = f"{getattr(owner, '__name__', owner)}.{attr}:{name}"
    if _installed.get(key):
        return
    f = getattr(owner, attr)
    is_static = isinstance(owner.__dict__.get(attr) if hasattr(owner, "__dict__") else None, staticmethod)
    g = f
    if post is not None:
        g = icontract.ensure(_cond(name + ".post", ctx, post), error=ContractBroken)(g)
    for sname, sfn in (snaps or {}).items():
        g = icontract.snapshot(sfn, name=sname)(g)
    if pre is not None:
        g = icontract.require(_cond(name + ".pre", ctx, pre), error=ContractBroken)(g)
    setattr(owner, attr, staticmethod(g) if is_static else g)
    _installed[key] = True


# =========================================================================== C01
def install_c01(ctx: Any) -> None:
    import numpy as np
    import hta.common.trace as tr
    import hta.common.trace_parser as tp

    # --- round_down_time_stamps(df): ceil(ts), floor(ts+dur), dur = end - ts -------------------
    def snap_td(df):  # noqa: ANN001
        if df["ts"].dtype != np.dtype("float64"):
            return None
        return (df["ts"].tolist(), df["dur"].tolist() if "dur" in df.columns else None)

    def post_round(df, OLD):  # noqa: ANN001,N803
        if OLD.td is None:
            return None
        import hta.configs.env_options as eo
        if eo.disable_ns_rounding():
            return None
        ts0, dur0 = OLD.td
        ts1, dur1 = df["ts"].tolist(), df["dur"].tolist()
        for i, (a, d, b, e) in enumerate(zip(ts0, dur0, ts1, dur1)):
            if a is None or (isinstance(a, float) and math.isnan(a)):
                continue
            if b != math.ceil(a):
                return f"row {i}: ts {a!r} rounded to {b!r}, expected ceil = {math.ceil(a)}"
            if d is None or (isinstance(d, float) and math.isnan(d)):
                continue
            end_new = b + e
            ok = {math.floor(a + d), math.floor(Fraction(a) + Fraction(d))}
            if end_new not in ok:
                return f"row {i}: span [{a!r},{a + d!r}] rounded to [{b!r},{end_new!r}] (end must be floor = {sorted(ok)})"
        return None

    attach(tp, "round_down_time_stamps", "round_down_time_stamps", ctx, post=post_round, snaps={"td": snap_td})

    # --- parse_trace_file: end == ts + dur, ids unique ---------------------------------------
    def post_parse(result):  # noqa: ANN001
        df = result[1]
        if len(df) == 0:
            return None
        if not (df["end"] == df["ts"] + df["dur"]).all():
            bad = df[df["end"] != df["ts"] + df["dur"]].iloc[0]
            return f"end != ts + dur after parse at id {bad['index']}: ts={bad['ts']} dur={bad['dur']} end={bad['end']}"
        if df["index"].duplicated().any():
            return "duplicate event ids after parse"
        return None

    attach(tr, "parse_trace_file", "parse_trace_file", ctx, post=post_parse)

    # --- Trace._align_all_ranks: one constant, global min 0, end follows ----------------------
    def snap_ts(self):  # noqa: ANN001
        return {r: df["ts"].tolist() for r, df in self.traces.items()}

    def post_align(self, OLD):  # noqa: ANN001,N803
        mins = []
        for r, df in self.traces.items():
            new = df["ts"].tolist()
            old = OLD.ts[r]
            if len(new) != len(old):
                return f"rank {r}: row count changed during alignment"
            for o, n in zip(old, new):
                if n != o - self.min_ts and o - n != self.min_ts:      # float columns (rounding disabled): n is the rounded difference
                    return f"rank {r}: ts {o} became {n}; shift {o - n} differs from min_ts {self.min_ts}"
            if len(new):
                mins.append(min(new))
            if "end" in df.columns and len(df) and not (df["end"] == df["ts"] + df["dur"]).all():
                bad = df[df["end"] != df["ts"] + df["dur"]].iloc[0]
                return (f"rank {r}: after alignment end != ts + dur at id {bad['index']}: ts={bad['ts']} dur={bad['dur']} "
                        f"end={bad['end']} (min_ts={self.min_ts})")
        if mins and min(mins) != 0:
            return f"earliest aligned ts is {min(mins)}, expected 0"
        return None

    attach(tr.Trace, "_align_all_ranks", "align_all_ranks", ctx, post=post_align, snaps={"ts": snap_ts})


# =========================================================================== C02
def install_c02(ctx: Any) -> None:
    import hta.common.trace as tr

    def post_links(result):  # noqa: ANN001
        df = result
        if "index_correlation" not in df.columns or len(df) == 0:
            return None
        ids = df["index"].tolist()
        ic = df["index_correlation"].tolist()
        corr = df["correlation"].tolist()
        pos = {i: k for k, i in enumerate(ids)}
        import collections
        n_with = collections.Counter(corr)
        for k, (i, l, c) in enumerate(zip(ids, ic, corr)):
            if l > 0:
                j = pos.get(l)
                if j is None:
                    return f"event {i} linked to {l}, which is not an event id"
                # mutuality is promised for "the unique event on the opposite side": an id carried by more than two events
                # (real traces: several runtime calls sharing one id) has no unique counterpart
                if ic[j] != i and n_with[c] <= 2:
                    return f"link not mutual: {i} -> {l} but {l} -> {ic[j]}"
                if n_with[c] > 2:
                    ctx.monitor["links_with_ambiguous_ids_not_judged_for_mutuality"] += 1
                if corr[j] != c:
                    return f"event {i} (correlation {c}) linked to {l} (correlation {corr[j]})"
            elif c == -1 and l != -1:
                return f"event {i} has no correlation id but link {l}"
            elif c >= 0 and l not in (0,) and l <= 0:
                return f"event {i} has correlation {c} but link sentinel {l}"
        return None

    attach(tr, "transform_correlation_to_index", "transform_correlation_to_index", ctx, post=post_links)
