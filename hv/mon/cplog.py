"""Edge logger for the critical-path graph: CPGraph._add_edge_helper is wrapped (class attribute
rebinding, nothing edited in the repository) so that every edge insertion is recorded as
(type, src event, src is_start, dst event, dst is_start, weight, adding function).  The offline checker
in hv/props/c08.py compares the log with the finished graph and checks the edge discipline."""
from __future__ import annotations

import sys
from typing import Any, List

LOG: List[tuple] = []
_installed = False


def install(ctx: Any) -> None:
    global _installed
    if _installed:
        return
    import hta.analyzers.critical_path_analysis as cpa

    orig = cpa.CPGraph._add_edge_helper

    def logged(self, src, dest, *a, **k):  # noqa: ANN001
        e = orig(self, src, dest, *a, **k)
        ctx.monitor["add_edge_helper.log"] += 1
        try:
            site = sys._getframe(1).f_code.co_name
        except Exception:  # noqa: BLE001
            site = "?"
        LOG.append((e.type.value, int(src.ev_idx), bool(src.is_start), int(dest.ev_idx), bool(dest.is_start), e.weight, site,
                    int(e.begin), int(e.end)))
        return e

    cpa.CPGraph._add_edge_helper = logged
    _installed = True


def take() -> List[tuple]:
    out = list(LOG)
    LOG.clear()
    return out
